#![allow(unused, dropping_references, clippy::all)]
use generic_array::functional::*;
use generic_array::sequence::*;
use generic_array::typenum::*;
use generic_array::{arr, box_arr, ArrayLength, GenericArray, GenericArrayIter};
use std::cell::Cell;
use std::rc::Rc;
use std::sync::Arc;
fn need_send<T: Send>(_: T) {}
fn need_sync<T: Sync>(_: &T) {}
fn need_copy<T: Copy>(_: T) {}
fn need_clone<T: Clone>(_: &T) {}
struct NoClone;

fn main() {
    let c = [arr![1, 2], arr![3, 4]]; let _: &mut [i32] = GenericArray::slice_from_chunks_mut(&c);
}
