#![allow(unused, dropping_references, clippy::all)]
use generic_array::functional::*;
use generic_array::sequence::*;
use generic_array::typenum::*;
use generic_array::{arr, box_arr, ArrayLength, GenericArray, GenericArrayIter};
use std::cell::Cell;
use std::rc::Rc;
use std::sync::Arc;
fn need_send<T: Send>(_: T) {}
fn need_sync<T: Sync>(_: &T) {}
fn need_copy<T: Copy>(_: T) {}
fn need_clone<T: Clone>(_: &T) {}
struct NoClone;
use core::ops::{Add, Div, Mul, Sub};
fn ship<T: Send, N: ArrayLength>(a: GenericArray<T, N>) { need_send(a) } fn ship_it<T: Send, N: ArrayLength>(a: GenericArray<T, N>) { need_send(a.into_iter()) }

fn main() {
    ship(arr![Rc::new(1u8)]); ship_it(arr![Rc::new(1u8)]);
}
