#![allow(unused, dropping_references, clippy::all)]
use generic_array::functional::*;
use generic_array::sequence::*;
use generic_array::typenum::*;
use generic_array::{arr, box_arr, ArrayLength, GenericArray, GenericArrayIter};
use std::cell::Cell;
use std::rc::Rc;
use std::sync::Arc;
fn need_send<T: Send>(_: T) {}
fn need_sync<T: Sync>(_: &T) {}
fn need_copy<T: Copy>(_: T) {}
fn need_clone<T: Clone>(_: &T) {}
struct NoClone;
use core::ops::{Add, Div, Mul, Sub};
fn coll<N: ArrayLength>(v: Vec<i32>) -> Option<GenericArray<i32, N>> { GenericArray::try_from_iter(v).ok() }

fn main() {
    let _: Option<GenericArray<i64, U3>> = coll(vec![1, 2, 3]);
}
