#![allow(unused, dropping_references, clippy::all)]
use generic_array::functional::*;
use generic_array::sequence::*;
use generic_array::typenum::*;
use generic_array::{arr, box_arr, ArrayLength, GenericArray, GenericArrayIter};
use std::cell::Cell;
use std::rc::Rc;
use std::sync::Arc;
fn need_send<T: Send>(_: T) {}
fn need_sync<T: Sync>(_: &T) {}
fn need_copy<T: Copy>(_: T) {}
fn need_clone<T: Clone>(_: &T) {}
struct NoClone;
struct Z; // zero-sized, no traits
#[derive(Clone, Debug, Default, PartialEq, Eq, PartialOrd, Ord, Hash)] struct D(u8);
struct NC(u8); // neither Clone nor Default nor Debug
fn need_dei<I: DoubleEndedIterator + ExactSizeIterator + core::iter::FusedIterator>(_: &I) {}

fn main() {
    let a = arr![NC(1), NC(2)]; let v: Vec<NC> = a.into(); let a: GenericArray<NC, U2> = GenericArray::try_from(v).ok().unwrap(); let b: Box<[NC]> = a.into(); let a: GenericArray<NC, U2> = GenericArray::try_from(b).ok().unwrap(); let bx = Box::new(a); let s: Box<[NC]> = bx.into_boxed_slice(); let bx: Box<GenericArray<NC, U2>> = GenericArray::try_from_boxed_slice(s).ok().unwrap(); let v: Vec<NC> = bx.into_vec(); let bx: Box<GenericArray<NC, U2>> = GenericArray::try_from_vec(v).ok().unwrap(); for _ in bx {}
}
