#![allow(unused, dropping_references, clippy::all)]
use generic_array::functional::*;
use generic_array::sequence::*;
use generic_array::typenum::*;
use generic_array::{arr, box_arr, ArrayLength, GenericArray, GenericArrayIter};
use std::cell::Cell;
use std::rc::Rc;
use std::sync::Arc;
fn need_send<T: Send>(_: T) {}
fn need_sync<T: Sync>(_: &T) {}
fn need_copy<T: Copy>(_: T) {}
fn need_clone<T: Clone>(_: &T) {}
struct NoClone;
use core::ops::{Add, Div, Mul, Sub};
#[derive(Clone, Copy)] struct W<N: ArrayLength> where N::ArrayType<f32>: Copy { d: GenericArray<f32, N> }

fn main() {
    let w = W::<U3> { d: arr![1.0, 2.0, 3.0, 4.0] }; let v = w; let _ = (w.d, v.d);
}
