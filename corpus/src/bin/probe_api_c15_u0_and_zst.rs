#![allow(unused, dropping_references, clippy::all)]
use generic_array::functional::*;
use generic_array::sequence::*;
use generic_array::typenum::*;
use generic_array::{arr, box_arr, ArrayLength, GenericArray, GenericArrayIter};
use std::cell::Cell;
use std::rc::Rc;
use std::sync::Arc;
fn need_send<T: Send>(_: T) {}
fn need_sync<T: Sync>(_: &T) {}
fn need_copy<T: Copy>(_: T) {}
fn need_clone<T: Clone>(_: &T) {}
struct NoClone;
struct Z; // zero-sized, no traits
#[derive(Clone, Debug, Default, PartialEq, Eq, PartialOrd, Ord, Hash)] struct D(u8);
struct NC(u8); // neither Clone nor Default nor Debug
fn need_dei<I: DoubleEndedIterator + ExactSizeIterator + core::iter::FusedIterator>(_: &I) {}

fn main() {
    let e: GenericArray<NC, U0> = arr![]; let v: Vec<NC> = e.into(); let e: GenericArray<NC, U0> = GenericArray::try_from(v).ok().unwrap(); let b: Box<[NC]> = e.into(); let _: Box<GenericArray<NC, U0>> = GenericArray::try_from_boxed_slice(b).ok().unwrap(); let z = arr![Z, Z]; let v: Vec<Z> = z.into(); let _: Box<GenericArray<Z, U2>> = GenericArray::try_from_vec(v).ok().unwrap();
}
