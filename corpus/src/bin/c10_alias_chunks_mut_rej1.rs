#![allow(unused, dropping_references, clippy::all)]
use generic_array::functional::*;
use generic_array::sequence::*;
use generic_array::typenum::*;
use generic_array::{arr, box_arr, ArrayLength, GenericArray, GenericArrayIter};
use std::cell::Cell;
use std::rc::Rc;
use std::sync::Arc;
fn need_send<T: Send>(_: T) {}
fn need_sync<T: Sync>(_: &T) {}
fn need_copy<T: Copy>(_: T) {}
fn need_clone<T: Clone>(_: &T) {}
struct NoClone;

fn main() {
    let mut v = [1u8, 2, 3, 4, 5]; let (c, _r) = GenericArray::<u8, U2>::chunks_from_slice_mut(&mut v); let (c2, _r2) = GenericArray::<u8, U2>::chunks_from_slice_mut(&mut v); c[0][0] = 9; c2[0][0] = 8;
}
