#![allow(unused, dropping_references, clippy::all)]
use generic_array::functional::*;
use generic_array::sequence::*;
use generic_array::typenum::*;
use generic_array::{arr, box_arr, ArrayLength, GenericArray, GenericArrayIter};
use std::cell::Cell;
use std::rc::Rc;
use std::sync::Arc;
fn need_send<T: Send>(_: T) {}
fn need_sync<T: Sync>(_: &T) {}
fn need_copy<T: Copy>(_: T) {}
fn need_clone<T: Clone>(_: &T) {}
struct NoClone;
#[derive(Debug, PartialEq)] struct Slot { name: String, hits: Vec<u32> }
const FREE: Slot = Slot { name: String::new(), hits: Vec::new() };
#[derive(Clone, Copy, PartialEq, Debug)] struct P(u8, u16);
const fn mk(i: u8) -> P { P(i, i as u16 * 3) }

fn main() {
    fn rep<const K: usize>(x: u8) -> GenericArray<u8, generic_array::ConstArrayLength<K>> where Const<K>: generic_array::IntoArrayLength { arr![x; { K }] } const fn crep<const K: usize>() -> GenericArray<u8, generic_array::ConstArrayLength<K>> where Const<K>: generic_array::IntoArrayLength { arr![9u8; { K }] } let a: GenericArray<u8, U4> = rep::<4>(1); let b: GenericArray<u8, U2> = crep::<2>(); let _ = (a, b);
}
