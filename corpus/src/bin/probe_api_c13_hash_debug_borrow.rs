#![allow(unused, dropping_references, clippy::all)]
use generic_array::functional::*;
use generic_array::sequence::*;
use generic_array::typenum::*;
use generic_array::{arr, box_arr, ArrayLength, GenericArray, GenericArrayIter};
use std::cell::Cell;
use std::rc::Rc;
use std::sync::Arc;
fn need_send<T: Send>(_: T) {}
fn need_sync<T: Sync>(_: &T) {}
fn need_copy<T: Copy>(_: T) {}
fn need_clone<T: Clone>(_: &T) {}
struct NoClone;
struct Z; // zero-sized, no traits
#[derive(Clone, Debug, Default, PartialEq, Eq, PartialOrd, Ord, Hash)] struct D(u8);
struct NC(u8); // neither Clone nor Default nor Debug
fn need_dei<I: DoubleEndedIterator + ExactSizeIterator + core::iter::FusedIterator>(_: &I) {}

fn main() {
    use std::collections::{BTreeMap, HashMap}; let mut h: HashMap<GenericArray<D, U2>, u8> = HashMap::new(); h.insert(arr![D(1), D(2)], 1); let _ = h.get(&[D(1), D(2)][..]); let mut t: BTreeMap<GenericArray<D, U2>, u8> = BTreeMap::new(); t.insert(arr![D(1), D(2)], 1); let _ = t.get(&[D(1), D(2)][..]); let _ = format!("{:?} {:#?} {:x?} {:5?}", arr![1u8, 2], arr![D(1)], arr![10u8], arr![1.5f32]); let e: GenericArray<D, U0> = arr![]; let _ = format!("{:?}", e);
}
