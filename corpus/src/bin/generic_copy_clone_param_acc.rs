#![allow(unused, dropping_references, clippy::all)]
use generic_array::functional::*;
use generic_array::sequence::*;
use generic_array::typenum::*;
use generic_array::{arr, box_arr, ArrayLength, GenericArray, GenericArrayIter};
use std::cell::Cell;
use std::rc::Rc;
use std::sync::Arc;
fn need_send<T: Send>(_: T) {}
fn need_sync<T: Sync>(_: &T) {}
fn need_copy<T: Copy>(_: T) {}
fn need_clone<T: Clone>(_: &T) {}
struct NoClone;
use core::ops::{Add, Div, Mul, Sub};
fn dup<T: Copy, N: ArrayLength>(a: GenericArray<T, N>) -> (GenericArray<T, N>, GenericArray<T, N>) where N::ArrayType<T>: Copy { (a, a) } fn cl<T: Clone, N: ArrayLength>(a: &GenericArray<T, N>) -> GenericArray<T, N> { a.clone() }

fn main() {
    let _ = dup(arr![1u8, 2]); let _ = cl(&arr![String::new()]);
}
