#![allow(unused, dropping_references, clippy::all)]
use generic_array::functional::*;
use generic_array::sequence::*;
use generic_array::typenum::*;
use generic_array::{arr, box_arr, ArrayLength, GenericArray, GenericArrayIter};
use std::cell::Cell;
use std::rc::Rc;
use std::sync::Arc;
fn need_send<T: Send>(_: T) {}
fn need_sync<T: Sync>(_: &T) {}
fn need_copy<T: Copy>(_: T) {}
fn need_clone<T: Clone>(_: &T) {}
struct NoClone;
struct Z; // zero-sized, no traits
#[derive(Clone, Debug, Default, PartialEq, Eq, PartialOrd, Ord, Hash)] struct D(u8);
struct NC(u8); // neither Clone nor Default nor Debug
fn need_dei<I: DoubleEndedIterator + ExactSizeIterator + core::iter::FusedIterator>(_: &I) {}

fn main() {
    let _: Result<GenericArray<NC, U2>, _> = GenericArray::try_from_iter(vec![NC(1), NC(2)]); let _: GenericArray<NC, U2> = vec![NC(1), NC(2)].into_iter().collect(); let _: GenericArray<NC, U0> = std::iter::empty().collect(); let _: Result<GenericArray<Z, U3>, _> = GenericArray::try_from_iter((0..3).map(|_| Z)); let _: GenericArray<u8, U3> = GenericArray::from_iter(0..3u8); let _ = GenericArray::<u8, U3>::try_from_iter(std::iter::repeat(1u8)).is_err();
}
