#![allow(unused, dropping_references, clippy::all)]
use generic_array::functional::*;
use generic_array::sequence::*;
use generic_array::typenum::*;
use generic_array::{arr, box_arr, ArrayLength, GenericArray, GenericArrayIter};
use std::cell::Cell;
use std::rc::Rc;
use std::sync::Arc;
fn need_send<T: Send>(_: T) {}
fn need_sync<T: Sync>(_: &T) {}
fn need_copy<T: Copy>(_: T) {}
fn need_clone<T: Clone>(_: &T) {}
struct NoClone;
use core::ops::{Add, Div, Mul, Sub};
fn flat<T, N, M>(a: GenericArray<GenericArray<T, N>, M>) -> GenericArray<T, Prod<N, M>> where N: ArrayLength + Mul<M>, M: ArrayLength, Prod<N, M>: ArrayLength { a.flatten() }

fn main() {
    let _: GenericArray<i32, U5> = flat(arr![arr![1, 2], arr![3, 4], arr![5, 6]]);
}
