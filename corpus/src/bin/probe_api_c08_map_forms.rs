#![allow(unused, dropping_references, clippy::all)]
use generic_array::functional::*;
use generic_array::sequence::*;
use generic_array::typenum::*;
use generic_array::{arr, box_arr, ArrayLength, GenericArray, GenericArrayIter};
use std::cell::Cell;
use std::rc::Rc;
use std::sync::Arc;
fn need_send<T: Send>(_: T) {}
fn need_sync<T: Sync>(_: &T) {}
fn need_copy<T: Copy>(_: T) {}
fn need_clone<T: Clone>(_: &T) {}
struct NoClone;
struct Z; // zero-sized, no traits
#[derive(Clone, Debug, Default, PartialEq, Eq, PartialOrd, Ord, Hash)] struct D(u8);
struct NC(u8); // neither Clone nor Default nor Debug
fn need_dei<I: DoubleEndedIterator + ExactSizeIterator + core::iter::FusedIterator>(_: &I) {}

fn main() {
    let mut a = arr![NC(1), NC(2)]; let _: GenericArray<u8, U2> = (&a).map(|x| x.0); let _: GenericArray<u8, U2> = (&mut a).map(|x| x.0); let _: GenericArray<Z, U2> = a.map(|_| Z); let b = box_arr![1u8, 2]; let _: Box<GenericArray<u16, U2>> = b.map(|x| x as u16); let e: GenericArray<NC, U0> = arr![]; let _: GenericArray<Z, U0> = e.map(|_| Z);
}
