#![allow(unused, dropping_references, clippy::all)]
use generic_array::functional::*;
use generic_array::sequence::*;
use generic_array::typenum::*;
use generic_array::{arr, box_arr, ArrayLength, GenericArray, GenericArrayIter};
use std::cell::Cell;
use std::rc::Rc;
use std::sync::Arc;
fn need_send<T: Send>(_: T) {}
fn need_sync<T: Sync>(_: &T) {}
fn need_copy<T: Copy>(_: T) {}
fn need_clone<T: Clone>(_: &T) {}
struct NoClone;
struct Z; // zero-sized, no traits
#[derive(Clone, Debug, Default, PartialEq, Eq, PartialOrd, Ord, Hash)] struct D(u8);
struct NC(u8); // neither Clone nor Default nor Debug
fn need_dei<I: DoubleEndedIterator + ExactSizeIterator + core::iter::FusedIterator>(_: &I) {}

fn main() {
    let (mut a, mut b) = (arr![NC(1), NC(2)], arr![NC(3), NC(4)]); let _: GenericArray<u8, U2> = (&a).zip(&b, |x, y| x.0 + y.0); let _: GenericArray<u8, U2> = (&mut a).zip(&mut b, |x, y| x.0 + y.0); let _: GenericArray<u8, U2> = (&a).zip(&mut b, |x, y| x.0 + y.0); let _: GenericArray<u8, U2> = a.zip(b, |x, y| x.0 + y.0); let _ = box_arr![1, 2].zip(box_arr![3, 4], |x, y| x + y);
}
