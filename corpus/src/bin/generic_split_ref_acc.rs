#![allow(unused, dropping_references, clippy::all)]
use generic_array::functional::*;
use generic_array::sequence::*;
use generic_array::typenum::*;
use generic_array::{arr, box_arr, ArrayLength, GenericArray, GenericArrayIter};
use std::cell::Cell;
use std::rc::Rc;
use std::sync::Arc;
fn need_send<T: Send>(_: T) {}
fn need_sync<T: Sync>(_: &T) {}
fn need_copy<T: Copy>(_: T) {}
fn need_clone<T: Clone>(_: &T) {}
struct NoClone;
use core::ops::{Add, Div, Mul, Sub};
fn cut<'a, T, N, K>(a: &'a GenericArray<T, N>) -> (&'a GenericArray<T, K>, &'a GenericArray<T, Diff<N, K>>) where N: ArrayLength + Sub<K>, K: ArrayLength, Diff<N, K>: ArrayLength { a.split() }

fn main() {
    let a = arr![1, 2, 3]; let (_h, _t): (&GenericArray<i32, U2>, &GenericArray<i32, U1>) = cut(&a);
}
