#![allow(unused, dropping_references, clippy::all)]
use generic_array::functional::*;
use generic_array::sequence::*;
use generic_array::typenum::*;
use generic_array::{arr, box_arr, ArrayLength, GenericArray, GenericArrayIter};
use std::cell::Cell;
use std::rc::Rc;
use std::sync::Arc;
fn need_send<T: Send>(_: T) {}
fn need_sync<T: Sync>(_: &T) {}
fn need_copy<T: Copy>(_: T) {}
fn need_clone<T: Clone>(_: &T) {}
struct NoClone;
struct Z; // zero-sized, no traits
#[derive(Clone, Debug, Default, PartialEq, Eq, PartialOrd, Ord, Hash)] struct D(u8);
struct NC(u8); // neither Clone nor Default nor Debug
fn need_dei<I: DoubleEndedIterator + ExactSizeIterator + core::iter::FusedIterator>(_: &I) {}

fn main() {
    let mut e: GenericArray<NC, U0> = arr![]; { let (_h, _t): (&GenericArray<NC, U0>, &GenericArray<NC, U0>) = (&e).split(); } { let (_h, _t): (&mut GenericArray<NC, U0>, &mut GenericArray<NC, U0>) = (&mut e).split(); } let (_h, _t): (GenericArray<NC, U0>, GenericArray<NC, U0>) = e.split();
}
