#![allow(unused, dropping_references, clippy::all)]
use generic_array::functional::*;
use generic_array::sequence::*;
use generic_array::typenum::*;
use generic_array::{arr, box_arr, ArrayLength, GenericArray, GenericArrayIter};
use std::cell::Cell;
use std::rc::Rc;
use std::sync::Arc;
fn need_send<T: Send>(_: T) {}
fn need_sync<T: Sync>(_: &T) {}
fn need_copy<T: Copy>(_: T) {}
fn need_clone<T: Clone>(_: &T) {}
struct NoClone;
struct Z; // zero-sized, no traits
#[derive(Clone, Debug, Default, PartialEq, Eq, PartialOrd, Ord, Hash)] struct D(u8);
struct NC(u8); // neither Clone nor Default nor Debug
fn need_dei<I: DoubleEndedIterator + ExactSizeIterator + core::iter::FusedIterator>(_: &I) {}

fn main() {
    let mut n = [NC(1), NC(2), NC(3)]; { let _: &GenericArray<NC, U3> = (&n).into(); } { let _: &mut GenericArray<NC, U3> = (&mut n).into(); } let g: GenericArray<NC, U3> = n.into(); let _: [NC; 3] = g.into(); let g0: GenericArray<NC, U0> = GenericArray::from_array([]); let _: [NC; 0] = g0.into_array();
}
