#![allow(unused, dropping_references, clippy::all)]
use generic_array::functional::*;
use generic_array::sequence::*;
use generic_array::typenum::*;
use generic_array::{arr, box_arr, ArrayLength, GenericArray, GenericArrayIter};
use std::cell::Cell;
use std::rc::Rc;
use std::sync::Arc;
fn need_send<T: Send>(_: T) {}
fn need_sync<T: Sync>(_: &T) {}
fn need_copy<T: Copy>(_: T) {}
fn need_clone<T: Clone>(_: &T) {}
struct NoClone;
use core::ops::{Add, Div, Mul, Sub};
fn join<T, N, M>(a: GenericArray<T, N>, b: GenericArray<T, M>) -> GenericArray<T, Sum<N, M>> where N: ArrayLength + Add<M>, M: ArrayLength, Sum<N, M>: ArrayLength { a.concat(b) }

fn main() {
    let _: GenericArray<i32, U5> = join(arr![1, 2], arr![3, 4, 5]);
}
