#![allow(unused, dropping_references, clippy::all)]
use generic_array::functional::*;
use generic_array::sequence::*;
use generic_array::typenum::*;
use generic_array::{arr, box_arr, ArrayLength, GenericArray, GenericArrayIter};
use std::cell::Cell;
use std::rc::Rc;
use std::sync::Arc;
fn need_send<T: Send>(_: T) {}
fn need_sync<T: Sync>(_: &T) {}
fn need_copy<T: Copy>(_: T) {}
fn need_clone<T: Clone>(_: &T) {}
struct NoClone;
use core::ops::{Add, Div, Mul, Sub};
fn share<T: Sync, N: ArrayLength>(a: &GenericArray<T, N>) { need_sync(a) } fn share_it<T: Sync, N: ArrayLength>(a: GenericArray<T, N>) { need_sync(&a.into_iter()) }

fn main() {
    share(&arr![1u8, 2]); share_it(arr![1u8]);
}
