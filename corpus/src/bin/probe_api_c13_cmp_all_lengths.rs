#![allow(unused, dropping_references, clippy::all)]
use generic_array::functional::*;
use generic_array::sequence::*;
use generic_array::typenum::*;
use generic_array::{arr, box_arr, ArrayLength, GenericArray, GenericArrayIter};
use std::cell::Cell;
use std::rc::Rc;
use std::sync::Arc;
fn need_send<T: Send>(_: T) {}
fn need_sync<T: Sync>(_: &T) {}
fn need_copy<T: Copy>(_: T) {}
fn need_clone<T: Clone>(_: &T) {}
struct NoClone;
struct Z; // zero-sized, no traits
#[derive(Clone, Debug, Default, PartialEq, Eq, PartialOrd, Ord, Hash)] struct D(u8);
struct NC(u8); // neither Clone nor Default nor Debug
fn need_dei<I: DoubleEndedIterator + ExactSizeIterator + core::iter::FusedIterator>(_: &I) {}

fn main() {
    let (a, b) = (arr![D(1), D(2)], arr![D(1), D(3)]); let _ = (a == b, a != b, a < b, a <= b, a > b, a >= b, a.cmp(&b), a.partial_cmp(&b)); let (e, f): (GenericArray<D, U0>, GenericArray<D, U0>) = (arr![], arr![]); let _ = (e == f, e.cmp(&f), e.partial_cmp(&f));
}
