#![allow(unused, dropping_references, clippy::all)]
use generic_array::functional::*;
use generic_array::sequence::*;
use generic_array::typenum::*;
use generic_array::{arr, box_arr, ArrayLength, GenericArray, GenericArrayIter};
use std::cell::Cell;
use std::rc::Rc;
use std::sync::Arc;
fn need_send<T: Send>(_: T) {}
fn need_sync<T: Sync>(_: &T) {}
fn need_copy<T: Copy>(_: T) {}
fn need_clone<T: Clone>(_: &T) {}
struct NoClone;
struct Z; // zero-sized, no traits
#[derive(Clone, Debug, Default, PartialEq, Eq, PartialOrd, Ord, Hash)] struct D(u8);
struct NC(u8); // neither Clone nor Default nor Debug
fn need_dei<I: DoubleEndedIterator + ExactSizeIterator + core::iter::FusedIterator>(_: &I) {}

fn main() {
    const V: [u8; 5] = [1, 2, 3, 4, 5]; const P: (&[GenericArray<u8, U2>], &[u8]) = GenericArray::chunks_from_slice(&V); const S: &[u8] = GenericArray::slice_from_chunks(P.0); const N: &[[u8; 2]] = GenericArray::into_chunks(P.0); const G: &[GenericArray<u8, U2>] = GenericArray::from_chunks(N); let _ = (S, G);
}
