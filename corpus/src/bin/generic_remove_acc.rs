#![allow(unused, dropping_references, clippy::all)]
use generic_array::functional::*;
use generic_array::sequence::*;
use generic_array::typenum::*;
use generic_array::{arr, box_arr, ArrayLength, GenericArray, GenericArrayIter};
use std::cell::Cell;
use std::rc::Rc;
use std::sync::Arc;
fn need_send<T: Send>(_: T) {}
fn need_sync<T: Sync>(_: &T) {}
fn need_copy<T: Copy>(_: T) {}
fn need_clone<T: Clone>(_: &T) {}
struct NoClone;
use core::ops::{Add, Div, Mul, Sub};
fn rm<T, N>(a: GenericArray<T, N>, i: usize) -> (T, GenericArray<T, Sub1<N>>) where N: ArrayLength + Sub<B1>, Sub1<N>: ArrayLength { a.remove(i) }

fn main() {
    let (_x, _r): (i32, GenericArray<i32, U2>) = rm(arr![1, 2, 3], 1);
}
