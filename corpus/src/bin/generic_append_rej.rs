#![allow(unused, dropping_references, clippy::all)]
use generic_array::functional::*;
use generic_array::sequence::*;
use generic_array::typenum::*;
use generic_array::{arr, box_arr, ArrayLength, GenericArray, GenericArrayIter};
use std::cell::Cell;
use std::rc::Rc;
use std::sync::Arc;
fn need_send<T: Send>(_: T) {}
fn need_sync<T: Sync>(_: &T) {}
fn need_copy<T: Copy>(_: T) {}
fn need_clone<T: Clone>(_: &T) {}
struct NoClone;
use core::ops::{Add, Div, Mul, Sub};
fn push<T, N>(a: GenericArray<T, N>, x: T) -> GenericArray<T, Add1<N>> where N: ArrayLength + Add<B1>, Add1<N>: ArrayLength + Sub<B1, Output = N>, Sub1<Add1<N>>: ArrayLength { a.append(x) }

fn main() {
    let _: GenericArray<i32, U3> = push(arr![1, 2, 3], 4);
}
