#![allow(unused, dropping_references, clippy::all)]
use generic_array::functional::*;
use generic_array::sequence::*;
use generic_array::typenum::*;
use generic_array::{arr, box_arr, ArrayLength, GenericArray, GenericArrayIter};
use std::cell::Cell;
use std::rc::Rc;
use std::sync::Arc;
fn need_send<T: Send>(_: T) {}
fn need_sync<T: Sync>(_: &T) {}
fn need_copy<T: Copy>(_: T) {}
fn need_clone<T: Clone>(_: &T) {}
struct NoClone;
struct Z; // zero-sized, no traits
#[derive(Clone, Debug, Default, PartialEq, Eq, PartialOrd, Ord, Hash)] struct D(u8);
struct NC(u8); // neither Clone nor Default nor Debug
fn need_dei<I: DoubleEndedIterator + ExactSizeIterator + core::iter::FusedIterator>(_: &I) {}

fn main() {
    let g: GenericArray<NC, U1> = (NC(1),).into(); let _: (NC,) = g.into(); let g: GenericArray<NC, U3> = (NC(1), NC(2), NC(3)).into(); let _: (NC, NC, NC) = g.into(); let g: GenericArray<u8, U12> = (1, 2, 3, 4, 5, 6, 7, 8, 9, 10, 11, 12).into(); let _: (u8, u8, u8, u8, u8, u8, u8, u8, u8, u8, u8, u8) = g.into();
}
