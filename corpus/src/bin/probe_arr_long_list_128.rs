#![allow(unused, dropping_references, clippy::all)]
use generic_array::functional::*;
use generic_array::sequence::*;
use generic_array::typenum::*;
use generic_array::{arr, box_arr, ArrayLength, GenericArray, GenericArrayIter};
use std::cell::Cell;
use std::rc::Rc;
use std::sync::Arc;
fn need_send<T: Send>(_: T) {}
fn need_sync<T: Sync>(_: &T) {}
fn need_copy<T: Copy>(_: T) {}
fn need_clone<T: Clone>(_: &T) {}
struct NoClone;
#[derive(Debug, PartialEq)] struct Slot { name: String, hits: Vec<u32> }
const FREE: Slot = Slot { name: String::new(), hits: Vec::new() };
#[derive(Clone, Copy, PartialEq, Debug)] struct P(u8, u16);
const fn mk(i: u8) -> P { P(i, i as u16 * 3) }

fn main() {
    let a = arr![0u8, 1u8, 2u8, 3u8, 4u8, 5u8, 6u8, 7u8, 8u8, 9u8, 10u8, 11u8, 12u8, 13u8, 14u8, 15u8, 16u8, 17u8, 18u8, 19u8, 20u8, 21u8, 22u8, 23u8, 24u8, 25u8, 26u8, 27u8, 28u8, 29u8, 30u8, 31u8, 32u8, 33u8, 34u8, 35u8, 36u8, 37u8, 38u8, 39u8, 40u8, 41u8, 42u8, 43u8, 44u8, 45u8, 46u8, 47u8, 48u8, 49u8, 50u8, 51u8, 52u8, 53u8, 54u8, 55u8, 56u8, 57u8, 58u8, 59u8, 60u8, 61u8, 62u8, 63u8, 64u8, 65u8, 66u8, 67u8, 68u8, 69u8, 70u8, 71u8, 72u8, 73u8, 74u8, 75u8, 76u8, 77u8, 78u8, 79u8, 80u8, 81u8, 82u8, 83u8, 84u8, 85u8, 86u8, 87u8, 88u8, 89u8, 90u8, 91u8, 92u8, 93u8, 94u8, 95u8, 96u8, 97u8, 98u8, 99u8, 100u8, 101u8, 102u8, 103u8, 104u8, 105u8, 106u8, 107u8, 108u8, 109u8, 110u8, 111u8, 112u8, 113u8, 114u8, 115u8, 116u8, 117u8, 118u8, 119u8, 120u8, 121u8, 122u8, 123u8, 124u8, 125u8, 126u8, 127u8]; let b = box_arr![0u8, 1u8, 2u8, 3u8, 4u8, 5u8, 6u8, 7u8, 8u8, 9u8, 10u8, 11u8, 12u8, 13u8, 14u8, 15u8, 16u8, 17u8, 18u8, 19u8, 20u8, 21u8, 22u8, 23u8, 24u8, 25u8, 26u8, 27u8, 28u8, 29u8, 30u8, 31u8, 32u8, 33u8, 34u8, 35u8, 36u8, 37u8, 38u8, 39u8, 40u8, 41u8, 42u8, 43u8, 44u8, 45u8, 46u8, 47u8, 48u8, 49u8, 50u8, 51u8, 52u8, 53u8, 54u8, 55u8, 56u8, 57u8, 58u8, 59u8, 60u8, 61u8, 62u8, 63u8, 64u8, 65u8, 66u8, 67u8, 68u8, 69u8, 70u8, 71u8, 72u8, 73u8, 74u8, 75u8, 76u8, 77u8, 78u8, 79u8, 80u8, 81u8, 82u8, 83u8, 84u8, 85u8, 86u8, 87u8, 88u8, 89u8, 90u8, 91u8, 92u8, 93u8, 94u8, 95u8, 96u8, 97u8, 98u8, 99u8, 100u8, 101u8, 102u8, 103u8, 104u8, 105u8, 106u8, 107u8, 108u8, 109u8, 110u8, 111u8, 112u8, 113u8, 114u8, 115u8, 116u8, 117u8, 118u8, 119u8, 120u8, 121u8, 122u8, 123u8, 124u8, 125u8, 126u8, 127u8,]; assert_eq!(a.len(), 128); assert_eq!(b.len(), 128);
}
