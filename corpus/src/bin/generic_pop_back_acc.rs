#![allow(unused, dropping_references, clippy::all)]
use generic_array::functional::*;
use generic_array::sequence::*;
use generic_array::typenum::*;
use generic_array::{arr, box_arr, ArrayLength, GenericArray, GenericArrayIter};
use std::cell::Cell;
use std::rc::Rc;
use std::sync::Arc;
fn need_send<T: Send>(_: T) {}
fn need_sync<T: Sync>(_: &T) {}
fn need_copy<T: Copy>(_: T) {}
fn need_clone<T: Clone>(_: &T) {}
struct NoClone;
use core::ops::{Add, Div, Mul, Sub};
fn pop<T, N>(a: GenericArray<T, N>) -> (GenericArray<T, Sub1<N>>, T) where N: ArrayLength + Sub<B1>, Sub1<N>: ArrayLength + Add<B1, Output = N>, Add1<Sub1<N>>: ArrayLength { a.pop_back() }

fn main() {
    let (_r, _x): (GenericArray<i32, U2>, i32) = pop(arr![1, 2, 3]);
}
