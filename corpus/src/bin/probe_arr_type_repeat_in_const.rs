#![allow(unused, dropping_references, clippy::all)]
use generic_array::functional::*;
use generic_array::sequence::*;
use generic_array::typenum::*;
use generic_array::{arr, box_arr, ArrayLength, GenericArray, GenericArrayIter};
use std::cell::Cell;
use std::rc::Rc;
use std::sync::Arc;
fn need_send<T: Send>(_: T) {}
fn need_sync<T: Sync>(_: &T) {}
fn need_copy<T: Copy>(_: T) {}
fn need_clone<T: Clone>(_: &T) {}
struct NoClone;
#[derive(Debug, PartialEq)] struct Slot { name: String, hits: Vec<u32> }
const FREE: Slot = Slot { name: String::new(), hits: Vec::new() };
#[derive(Clone, Copy, PartialEq, Debug)] struct P(u8, u16);
const fn mk(i: u8) -> P { P(i, i as u16 * 3) }

fn main() {
    const A: GenericArray<u8, U0> = arr![1u8; U0]; const B: GenericArray<u32, U7> = arr![9u32; U7]; static S: GenericArray<(u8, u16), U4> = arr![(1u8, 2u16); U4]; const U: GenericArray<(), U3> = arr![(); U3]; let _ = (A, B, S.len(), U);
}
