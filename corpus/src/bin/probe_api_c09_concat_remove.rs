#![allow(unused, dropping_references, clippy::all)]
use generic_array::functional::*;
use generic_array::sequence::*;
use generic_array::typenum::*;
use generic_array::{arr, box_arr, ArrayLength, GenericArray, GenericArrayIter};
use std::cell::Cell;
use std::rc::Rc;
use std::sync::Arc;
fn need_send<T: Send>(_: T) {}
fn need_sync<T: Sync>(_: &T) {}
fn need_copy<T: Copy>(_: T) {}
fn need_clone<T: Clone>(_: &T) {}
struct NoClone;
struct Z; // zero-sized, no traits
#[derive(Clone, Debug, Default, PartialEq, Eq, PartialOrd, Ord, Hash)] struct D(u8);
struct NC(u8); // neither Clone nor Default nor Debug
fn need_dei<I: DoubleEndedIterator + ExactSizeIterator + core::iter::FusedIterator>(_: &I) {}

fn main() {
    let a: GenericArray<NC, U5> = arr![NC(1), NC(2)].concat(arr![NC(3), NC(4), NC(5)]); let e: GenericArray<NC, U0> = arr![]; let a: GenericArray<NC, U5> = a.concat(e); let e: GenericArray<NC, U0> = arr![]; let a: GenericArray<NC, U5> = e.concat(a); let (_x, a): (NC, GenericArray<NC, U4>) = a.remove(0); let (_x, a): (NC, GenericArray<NC, U3>) = a.swap_remove(2); let (_x, _a): (NC, GenericArray<NC, U2>) = unsafe { a.remove_unchecked(1) };
}
