#![allow(unused, dropping_references, clippy::all)]
use generic_array::functional::*;
use generic_array::sequence::*;
use generic_array::typenum::*;
use generic_array::{arr, box_arr, ArrayLength, GenericArray, GenericArrayIter};
use std::cell::Cell;
use std::rc::Rc;
use std::sync::Arc;
fn need_send<T: Send>(_: T) {}
fn need_sync<T: Sync>(_: &T) {}
fn need_copy<T: Copy>(_: T) {}
fn need_clone<T: Clone>(_: &T) {}
struct NoClone;
#[derive(Debug, PartialEq)] struct Slot { name: String, hits: Vec<u32> }
const FREE: Slot = Slot { name: String::new(), hits: Vec::new() };
#[derive(Clone, Copy, PartialEq, Debug)] struct P(u8, u16);
const fn mk(i: u8) -> P { P(i, i as u16 * 3) }

fn main() {
    let a = arr![7u8; Sum<U1024, U1>]; let b = arr![7u8; Prod<U100, U11>]; const C: GenericArray<u16, Prod<U500, U3>> = arr![1u16; Prod<U500, U3>]; let d = box_arr![0u8; Prod<U100, U11>]; let _ = (a.len(), b.len(), C.len(), d.len());
}
