#![allow(unused, dropping_references, clippy::all)]
use generic_array::functional::*;
use generic_array::sequence::*;
use generic_array::typenum::*;
use generic_array::{arr, box_arr, ArrayLength, GenericArray, GenericArrayIter};
use std::cell::Cell;
use std::rc::Rc;
use std::sync::Arc;
fn need_send<T: Send>(_: T) {}
fn need_sync<T: Sync>(_: &T) {}
fn need_copy<T: Copy>(_: T) {}
fn need_clone<T: Clone>(_: &T) {}
struct NoClone;
use core::ops::{Add, Div, Mul, Sub};
fn unflat<T, NM, N>(a: GenericArray<T, NM>) -> GenericArray<GenericArray<T, N>, Quot<NM, N>> where NM: ArrayLength + Div<N>, N: ArrayLength, Quot<NM, N>: ArrayLength { a.unflatten() }

fn main() {
    let _: GenericArray<GenericArray<i32, U2>, U4> = unflat(arr![1, 2, 3, 4, 5, 6]);
}
