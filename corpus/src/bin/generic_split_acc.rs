#![allow(unused, dropping_references, clippy::all)]
use generic_array::functional::*;
use generic_array::sequence::*;
use generic_array::typenum::*;
use generic_array::{arr, box_arr, ArrayLength, GenericArray, GenericArrayIter};
use std::cell::Cell;
use std::rc::Rc;
use std::sync::Arc;
fn need_send<T: Send>(_: T) {}
fn need_sync<T: Sync>(_: &T) {}
fn need_copy<T: Copy>(_: T) {}
fn need_clone<T: Clone>(_: &T) {}
struct NoClone;
use core::ops::{Add, Div, Mul, Sub};
fn cut<T, N, K>(a: GenericArray<T, N>) -> (GenericArray<T, K>, GenericArray<T, Diff<N, K>>) where N: ArrayLength + Sub<K>, K: ArrayLength, Diff<N, K>: ArrayLength { a.split() }

fn main() {
    let (_h, _t): (GenericArray<i32, U1>, GenericArray<i32, U2>) = cut(arr![1, 2, 3]);
}
