#![allow(unused, dropping_references, clippy::all)]
use generic_array::functional::*;
use generic_array::sequence::*;
use generic_array::typenum::*;
use generic_array::{arr, box_arr, ArrayLength, GenericArray, GenericArrayIter};
use std::cell::Cell;
use std::rc::Rc;
use std::sync::Arc;
fn need_send<T: Send>(_: T) {}
fn need_sync<T: Sync>(_: &T) {}
fn need_copy<T: Copy>(_: T) {}
fn need_clone<T: Clone>(_: &T) {}
struct NoClone;
struct Z; // zero-sized, no traits
#[derive(Clone, Debug, Default, PartialEq, Eq, PartialOrd, Ord, Hash)] struct D(u8);
struct NC(u8); // neither Clone nor Default nor Debug
fn need_dei<I: DoubleEndedIterator + ExactSizeIterator + core::iter::FusedIterator>(_: &I) {}

fn main() {
    let a = arr![Z, Z, Z]; let a: GenericArray<Z, U4> = a.append(Z); let (_h, t): (GenericArray<Z, U1>, GenericArray<Z, U3>) = a.split(); let (_x, t): (Z, GenericArray<Z, U2>) = t.remove(1); let _: GenericArray<Z, U4> = t.concat(arr![Z, Z]);
}
