#![allow(unused, dropping_references, clippy::all)]
use generic_array::functional::*;
use generic_array::sequence::*;
use generic_array::typenum::*;
use generic_array::{arr, box_arr, ArrayLength, GenericArray, GenericArrayIter};
use std::cell::Cell;
use std::rc::Rc;
use std::sync::Arc;
fn need_send<T: Send>(_: T) {}
fn need_sync<T: Sync>(_: &T) {}
fn need_copy<T: Copy>(_: T) {}
fn need_clone<T: Clone>(_: &T) {}
struct NoClone;
struct Z; // zero-sized, no traits
#[derive(Clone, Debug, Default, PartialEq, Eq, PartialOrd, Ord, Hash)] struct D(u8);
struct NC(u8); // neither Clone nor Default nor Debug
fn need_dei<I: DoubleEndedIterator + ExactSizeIterator + core::iter::FusedIterator>(_: &I) {}

fn main() {
    let v: [NC; 0] = []; let (_c, _r): (&[GenericArray<NC, U0>], &[NC]) = GenericArray::chunks_from_slice(&v); let z = [Z, Z, Z]; let (c, _r): (&[GenericArray<Z, U2>], &[Z]) = GenericArray::chunks_from_slice(&z); let _: &[Z] = GenericArray::slice_from_chunks(c); let n0: [[NC; 0]; 3] = [[], [], []]; let g: &[GenericArray<NC, U0>] = GenericArray::from_chunks(&n0); let _: &[[NC; 0]] = GenericArray::into_chunks(g);
}
