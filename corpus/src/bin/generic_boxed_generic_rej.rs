#![allow(unused, dropping_references, clippy::all)]
use generic_array::functional::*;
use generic_array::sequence::*;
use generic_array::typenum::*;
use generic_array::{arr, box_arr, ArrayLength, GenericArray, GenericArrayIter};
use std::cell::Cell;
use std::rc::Rc;
use std::sync::Arc;
fn need_send<T: Send>(_: T) {}
fn need_sync<T: Sync>(_: &T) {}
fn need_copy<T: Copy>(_: T) {}
fn need_clone<T: Clone>(_: &T) {}
struct NoClone;
use core::ops::{Add, Div, Mul, Sub};
fn bx<N: ArrayLength>() -> Box<GenericArray<u64, N>> { GenericArray::default_boxed() }

fn main() {
    let _: Box<GenericArray<u32, U9>> = bx();
}
