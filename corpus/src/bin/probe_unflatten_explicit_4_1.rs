#![allow(unused, dropping_references, clippy::all)]
use generic_array::functional::*;
use generic_array::sequence::*;
use generic_array::typenum::*;
use generic_array::{arr, box_arr, ArrayLength, GenericArray, GenericArrayIter};
use std::cell::Cell;
use std::rc::Rc;
use std::sync::Arc;
fn need_send<T: Send>(_: T) {}
fn need_sync<T: Sync>(_: &T) {}
fn need_copy<T: Copy>(_: T) {}
fn need_clone<T: Clone>(_: &T) {}
struct NoClone;

fn main() {
    let a: GenericArray<u32, U4> = Default::default(); let r: GenericArray<GenericArray<u32, U4>, U1> = Unflatten::<u32, U4, U4>::unflatten(a); let b: GenericArray<u32, U4> = Default::default(); let v: &GenericArray<GenericArray<u32, U4>, U1> = Unflatten::<u32, U4, U4>::unflatten(&b); let mut c: GenericArray<u32, U4> = Default::default(); let w: &mut GenericArray<GenericArray<u32, U4>, U1> = Unflatten::<u32, U4, U4>::unflatten(&mut c); let f: GenericArray<u32, U4> = Flatten::<u32, U4, U1>::flatten(r); let _ = (v.len(), w.len(), f.len());
}
