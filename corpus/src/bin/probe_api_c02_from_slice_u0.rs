#![allow(unused, dropping_references, clippy::all)]
use generic_array::functional::*;
use generic_array::sequence::*;
use generic_array::typenum::*;
use generic_array::{arr, box_arr, ArrayLength, GenericArray, GenericArrayIter};
use std::cell::Cell;
use std::rc::Rc;
use std::sync::Arc;
fn need_send<T: Send>(_: T) {}
fn need_sync<T: Sync>(_: &T) {}
fn need_copy<T: Copy>(_: T) {}
fn need_clone<T: Clone>(_: &T) {}
struct NoClone;
struct Z; // zero-sized, no traits
#[derive(Clone, Debug, Default, PartialEq, Eq, PartialOrd, Ord, Hash)] struct D(u8);
struct NC(u8); // neither Clone nor Default nor Debug
fn need_dei<I: DoubleEndedIterator + ExactSizeIterator + core::iter::FusedIterator>(_: &I) {}

fn main() {
    let mut v: [NC; 0] = []; { let _: &GenericArray<NC, U0> = GenericArray::from_slice(&v); } { let _: &mut GenericArray<NC, U0> = GenericArray::from_mut_slice(&mut v); } { let _ = GenericArray::<NC, U0>::try_from_slice(&v).is_ok(); } { let _ = <&mut GenericArray<NC, U0>>::try_from(&mut v[..]).is_ok(); }
}
