// Const fns that exercise the crate's const API.  Each returns a hash of every
// element it read, and asserts against a reference computed by plain indexing on
// the backing storage.  The same fn is evaluated by the compiler (in a const item)
// and natively (through a function pointer) and the two values are compared.

#![allow(clippy::all)]

use const_default::ConstDefault;
use core::mem::MaybeUninit;
use generic_array::internals::{ArrayBuilder, ArrayConsumer, IntrusiveArrayBuilder};
use generic_array::typenum::Const;
use generic_array::{ArrayLength, GenericArray, IntoArrayLength};

macro_rules! helpers {
    ($modname:ident, $T:ty, |$i:ident| $mk:expr, |$x:ident| $key:expr) => {
        pub mod $modname {
            use super::*;
            pub type T = $T;
            pub const fn mk($i: usize) -> T {
                $mk
            }
            pub const fn key($x: &T) -> u64 {
                $key
            }
            pub const fn fill<const L: usize>() -> [T; L] {
                let mut a = [mk(0); L];
                let mut i = 0;
                while i < L {
                    a[i] = mk(i);
                    i += 1;
                }
                a
            }
            pub const fn hash(s: &[T]) -> u64 {
                let mut h: u64 = 0xcbf29ce484222325;
                let mut i = 0;
                while i < s.len() {
                    h = (h ^ key(&s[i])).wrapping_mul(0x100000001b3);
                    i += 1;
                }
                h
            }
            const fn same(a: &[T], b: &[T]) -> bool {
                if a.len() != b.len() {
                    return false;
                }
                let mut i = 0;
                while i < a.len() {
                    if key(&a[i]) != key(&b[i]) {
                        return false;
                    }
                    i += 1;
                }
                true
            }

            /// chunks_from_slice + slice_from_chunks over an exactly-sized backing array
            pub const fn chunks<N: ArrayLength, const L: usize>() -> u64 {
                let b = fill::<L>();
                let (c, r) = GenericArray::<T, N>::chunks_from_slice(&b);
                let n = N::USIZE;
                if n == 0 {
                    assert!(c.len() == 0 && r.len() == 0);
                    return 0;
                }
                assert!(c.len() == L / n);
                assert!(r.len() == L % n);
                let mut h: u64 = 1;
                let mut i = 0;
                while i < c.len() {
                    let s = c[i].as_slice();
                    assert!(s.len() == n);
                    let mut j = 0;
                    while j < n {
                        assert!(key(&s[j]) == key(&b[i * n + j]));
                        h = h.wrapping_mul(31).wrapping_add(key(&s[j]));
                        j += 1;
                    }
                    i += 1;
                }
                let mut j = 0;
                while j < r.len() {
                    assert!(key(&r[j]) == key(&b[c.len() * n + j]));
                    h = h.wrapping_mul(31).wrapping_add(key(&r[j]));
                    j += 1;
                }
                let flat = GenericArray::<T, N>::slice_from_chunks(c);
                assert!(flat.len() == c.len() * n);
                assert!(hash(flat) == hash(b.split_at(c.len() * n).0));
                h
            }

            /// the mutable forms, with writes through both parts
            pub const fn chunks_mut<N: ArrayLength, const L: usize>() -> u64 {
                let mut b = fill::<L>();
                let n = N::USIZE;
                if n == 0 {
                    let (c, r) = GenericArray::<T, N>::chunks_from_slice_mut(&mut b);
                    assert!(c.len() == 0 && r.len() == 0);
                    return 0;
                }
                let q = L / n;
                {
                    let (c, r) = GenericArray::<T, N>::chunks_from_slice_mut(&mut b);
                    assert!(c.len() == q && r.len() == L % n);
                    if q > 0 {
                        c[q - 1].as_mut_slice()[n - 1] = mk(1001);
                        c[0].as_mut_slice()[0] = mk(1002);
                    }
                    if r.len() > 0 {
                        let last = r.len() - 1;
                        r[last] = mk(1003);
                    }
                    let flat = GenericArray::<T, N>::slice_from_chunks_mut(c);
                    assert!(flat.len() == q * n);
                    if q * n > 1 {
                        flat[1] = mk(1004);
                    }
                }
                // expected image built by plain indexing
                let mut e = fill::<L>();
                if q > 0 {
                    e[q * n - 1] = mk(1001);
                    e[0] = mk(1002);
                }
                if L % n > 0 {
                    e[L - 1] = mk(1003);
                }
                if q * n > 1 {
                    e[1] = mk(1004);
                }
                assert!(same(&b, &e));
                hash(&b)
            }

            /// from_chunks / into_chunks (+ _mut) between [[T; K]] and [GenericArray<T, N>]
            pub const fn reinterp<N: ArrayLength, const K: usize, const CNT: usize>() -> u64
            where
                Const<K>: IntoArrayLength<ArrayLength = N>,
            {
                let mut nat = [fill::<K>(); CNT];
                let mut h: u64 = 3;
                {
                    let g: &[GenericArray<T, N>] = GenericArray::<T, N>::from_chunks(&nat);
                    assert!(g.len() == CNT);
                    let mut i = 0;
                    while i < CNT {
                        assert!(same(g[i].as_slice(), &nat[i]));
                        h = h.wrapping_mul(31).wrapping_add(hash(g[i].as_slice()));
                        i += 1;
                    }
                    let back: &[[T; K]] = GenericArray::<T, N>::into_chunks(g);
                    assert!(back.len() == CNT);
                }
                {
                    let g: &mut [GenericArray<T, N>] = GenericArray::<T, N>::from_chunks_mut(&mut nat);
                    assert!(g.len() == CNT);
                    if CNT > 0 && K > 0 {
                        g[CNT - 1].as_mut_slice()[K - 1] = mk(2001);
                    }
                    let back: &mut [[T; K]] = GenericArray::<T, N>::into_chunks_mut(g);
                    assert!(back.len() == CNT);
                    if CNT > 0 && K > 0 {
                        back[0][0] = mk(2002);
                    }
                }
                if CNT > 0 && K > 0 {
                    assert!(key(&nat[CNT - 1][K - 1]) == key(&mk(if CNT == 1 && K == 1 { 2002 } else { 2001 })));
                    assert!(key(&nat[0][0]) == key(&mk(2002)));
                }
                let mut i = 0;
                while i < CNT {
                    h = h.wrapping_mul(31).wrapping_add(hash(&nat[i]));
                    i += 1;
                }
                h
            }

            /// slice -> &GenericArray reinterpretation: Ok exactly when L == N
            pub const fn slices<N: ArrayLength, const L: usize>() -> u64 {
                let b = fill::<L>();
                let n = N::USIZE;
                match GenericArray::<T, N>::try_from_slice(&b) {
                    Ok(a) => {
                        assert!(L == n);
                        assert!(same(a.as_slice(), &b));
                        let a2 = GenericArray::<T, N>::from_slice(&b);
                        assert!(same(a2.as_slice(), &b));
                        hash(a.as_slice())
                    }
                    Err(_) => {
                        assert!(L != n);
                        7
                    }
                }
            }

            pub const fn slices_mut<N: ArrayLength, const L: usize>() -> u64 {
                let mut b = fill::<L>();
                let n = N::USIZE;
                let ok = match GenericArray::<T, N>::try_from_mut_slice(&mut b) {
                    Ok(a) => {
                        if n > 0 {
                            a.as_mut_slice()[n - 1] = mk(3001);
                        }
                        true
                    }
                    Err(_) => false,
                };
                assert!(ok == (L == n));
                if ok {
                    let a = GenericArray::<T, N>::from_mut_slice(&mut b);
                    if n > 0 {
                        a.as_mut_slice()[0] = mk(3002);
                    }
                    if n > 1 {
                        assert!(key(&b[n - 1]) == key(&mk(3001)));
                    }
                    if n > 0 {
                        assert!(key(&b[0]) == key(&mk(3002)));
                    }
                }
                hash(&b)
            }

            /// [T; K] <-> GenericArray by value, and views of the result
            pub const fn arrays<N: ArrayLength, const K: usize>() -> u64
            where
                Const<K>: IntoArrayLength<ArrayLength = N>,
            {
                let nat = fill::<K>();
                let mut a: GenericArray<T, N> = GenericArray::from_array(nat);
                assert!(GenericArray::<T, N>::len() == K);
                assert!(same(a.as_slice(), &nat));
                if K > 0 {
                    a.as_mut_slice()[K / 2] = mk(4001);
                }
                let h = hash(a.as_slice());
                let back: [T; K] = a.into_array();
                assert!(hash(&back) == h);
                if K > 0 {
                    assert!(key(&back[K / 2]) == key(&mk(4001)));
                }
                h
            }

            /// uninit + element writes + assume_init
            pub const fn uninit_build<N: ArrayLength>() -> u64 {
                let mut u: GenericArray<MaybeUninit<T>, N> = GenericArray::<T, N>::uninit();
                {
                    let s = u.as_mut_slice();
                    assert!(s.len() == N::USIZE);
                    let mut i = 0;
                    while i < s.len() {
                        s[i] = MaybeUninit::new(mk(i));
                        i += 1;
                    }
                }
                let a: GenericArray<T, N> = unsafe { GenericArray::assume_init(u) };
                let h = {
                    let s = a.as_slice();
                    let mut i = 0;
                    while i < s.len() {
                        assert!(key(&s[i]) == key(&mk(i)));
                        i += 1;
                    }
                    hash(s)
                };
                // a generic array value cannot be dropped in a const fn; the elements are plain data
                core::mem::forget(a);
                h
            }

            /// const constructors of the `internals` builders
            pub const fn builders<N: ArrayLength>() -> u64 {
                let b = ArrayBuilder::<T, N>::new();
                let full = b.is_full();
                assert!(full == (N::USIZE == 0));
                let mut h: u64 = 5;
                if full {
                    let a: GenericArray<T, N> = unsafe { b.assume_init() };
                    h = h.wrapping_add(a.as_slice().len() as u64);
                    core::mem::forget(a);
                } else {
                    core::mem::forget(b);
                }
                let mut arr: GenericArray<MaybeUninit<T>, N> = GenericArray::<T, N>::uninit();
                {
                    let ib = IntrusiveArrayBuilder::new(&mut arr);
                    assert!(ib.is_full() == (N::USIZE == 0));
                    if ib.is_full() {
                        unsafe { ib.finish() };
                    } else {
                        core::mem::forget(ib);
                    }
                }
                core::mem::forget(arr);
                let src: GenericArray<T, N> = {
                    let mut u: GenericArray<MaybeUninit<T>, N> = GenericArray::<T, N>::uninit();
                    let s = u.as_mut_slice();
                    let mut i = 0;
                    while i < s.len() {
                        s[i] = MaybeUninit::new(mk(i + 1));
                        i += 1;
                    }
                    unsafe { GenericArray::assume_init(u) }
                };
                h = h.wrapping_mul(31).wrapping_add(hash(src.as_slice()));
                let c = ArrayConsumer::new(src);
                core::mem::forget(c);
                h
            }
        }
    };
}

helpers!(hu8, u8, |i| (i % 251) as u8, |x| *x as u64);
helpers!(hu32, u32, |i| (i as u32).wrapping_mul(0x9E3779B1), |x| *x as u64);
helpers!(htup, (u8, u16), |i| ((i % 250) as u8, (i as u16).wrapping_mul(257)), |x| (x.0 as u64) << 16 | x.1 as u64);
helpers!(hunit, (), |_i| (), |_x| 1);

/// const_default / DEFAULT: every element equals T::DEFAULT
macro_rules! defaults {
    ($name:ident, $T:ty, |$x:ident| $key:expr) => {
        pub const fn $name<N: ArrayLength>() -> u64
        where
            GenericArray<$T, N>: ConstDefault,
        {
            const fn key($x: &$T) -> u64 {
                $key
            }
            let a: GenericArray<$T, N> = GenericArray::<$T, N>::const_default();
            let b: GenericArray<$T, N> = <GenericArray<$T, N> as ConstDefault>::DEFAULT;
            let d: $T = <$T as ConstDefault>::DEFAULT;
            let mut h: u64 = 11;
            {
                let (sa, sb) = (a.as_slice(), b.as_slice());
                assert!(sa.len() == N::USIZE && sb.len() == N::USIZE);
                let mut i = 0;
                while i < sa.len() {
                    assert!(key(&sa[i]) == key(&d));
                    assert!(key(&sb[i]) == key(&d));
                    h = h.wrapping_mul(31).wrapping_add(key(&sa[i]) + 1);
                    i += 1;
                }
            }
            core::mem::forget(a);
            core::mem::forget(b);
            h
        }
    };
}
defaults!(defaults_u8, u8, |x| *x as u64);
defaults!(defaults_u32, u32, |x| *x as u64);
defaults!(defaults_tup, (u8, u16), |x| (x.0 as u64) << 16 | x.1 as u64);
defaults!(defaults_unit, (), |_x| 1);
defaults!(defaults_opt, Option<u8>, |x| match x { Some(v) => *v as u64 + 1, None => 0 });
