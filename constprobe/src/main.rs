//! constprobe — C18 (and the const halves of C10 / C19 / C20).
//! Building this crate IS the experiment: every `const`/`static` item in items.rs is
//! an execution of the crate's const API inside rustc's const evaluator (the Miri
//! engine), which rejects out-of-bounds and dangling pointers, uninitialised reads
//! and invalid values with error E0080 and validates the final value of each item.
//! Running it evaluates the same const fns natively (through function pointers, so
//! nothing is folded) and compares with the compiler's results.

mod helpers;
mod items;

use std::hint::black_box;
use std::panic::catch_unwind;

fn esc(s: &str) -> String {
    s.replace('\\', "\\\\").replace('"', "\\\"")
}

fn run_table(tier: &str, table: &[(&str, u64, fn() -> u64)], cases: &mut u64, viol: &mut u64, samples: &mut Vec<String>) {
    for (i, (name, konst, f)) in table.iter().enumerate() {
        *cases += 1;
        if i % (table.len() / 12 + 1) == 0 {
            samples.push(format!("{tier}: {name} = {konst:#x}"));
        }
        let f = black_box(*f);
        match catch_unwind(move || f()) {
            Ok(v) if v == *konst => {}
            Ok(v) => {
                *viol += 1;
                println!("V {{\"prop\":\"C18\",\"sig\":\"{}|RuntimeDisagrees\",\"case\":\"C18 {}\",\"detail\":\"const evaluation gave {:#x}, the same call at run time gives {:#x}\",\"log\":[]}}", esc(name.split(' ').next().unwrap()), esc(name), konst, v);
            }
            Err(_) => {
                *viol += 1;
                println!("V {{\"prop\":\"C18\",\"sig\":\"{}|RuntimePanic\",\"case\":\"C18 {}\",\"detail\":\"accepted by the const evaluator but panics at run time\",\"log\":[]}}", esc(name.split(' ').next().unwrap()), esc(name));
            }
        }
    }
}

fn main() {
    std::panic::set_hook(Box::new(|_| {}));
    let mut cases = 0u64;
    let mut viol = 0u64;
    let mut samples = Vec::new();
    run_table("quick", items::quick::TABLE, &mut cases, &mut viol, &mut samples);
    let mut refs = items::quick::ref_checks();
    #[cfg(feature = "full")]
    {
        run_table("full", items::full::TABLE, &mut cases, &mut viol, &mut samples);
        refs.extend(items::full::ref_checks());
    }
    refs.extend(items::macros::checks());
    for (name, ok) in &refs {
        cases += 1;
        if !ok {
            viol += 1;
            println!("V {{\"prop\":\"C18\",\"sig\":\"{}|RefItemMismatch\",\"case\":\"C18 {}\",\"detail\":\"a reference-valued const/static item does not show the expected elements at run time\",\"log\":[]}}", esc(name.split(' ').nth(1).unwrap_or("ref")), esc(name));
        }
    }
    let sam: Vec<String> = samples.iter().map(|s| format!("\"{}\"", esc(s))).collect();
    println!(
        "S {{\"engine\":\"constprobe\",\"shard\":\"0/1\",\"seed\":0,\"enumerated\":{cases},\"cases\":{cases},\"nontrivial\":{cases},\"violations\":{viol},\"counters\":{{\"const_items_evaluated_by_rustc\":{cases},\"reference_valued_items\":{}}},\"ops\":{{}},\"samples\":[{}],\"notes\":[]}}",
        refs.len(),
        sam.join(",")
    );
}
