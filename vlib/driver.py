"""Driver for the generic-array runtime-monitoring checks.

./check <ID> --tier quick|thorough [--replay FILE] [--seed N]

Builds the engines a property needs (from the repo's current working tree, through
the harness/.repo path dependency), runs them natively / under Miri / ASan /
memcheck in parallel shards with a watchdog, reads their V (violation) and S
(summary) lines, consults known_findings.json, writes evidence/<ID>.json and
replays/<ID>-*.json, prints HELD / VIOLATION / KNOWN-FINDING / INCONCLUSIVE.

Exit codes: 0 held, 1 violation (VIOLATION line printed), 2 inconclusive.
"""
import concurrent.futures as cf
import hashlib
import json
import os
import re
import shutil
import signal
import subprocess
import sys
import time

ROOT = os.path.dirname(os.path.dirname(os.path.abspath(__file__)))
HARNESS = os.path.join(ROOT, "harness")
EVIDENCE = os.path.join(ROOT, "evidence")
REPLAYS = os.path.join(ROOT, "replays")
KNOWN = os.path.join(ROOT, "known_findings.json")
NCPU = os.cpu_count() or 4

MIRI_GATING = "-Zmiri-tree-borrows -Zmiri-strict-provenance -Zmiri-symbolic-alignment-check"

# properties whose statement is about memory / ownership safety of the running
# operation: a crash or sanitizer report while executing a recorded case is a violation
MEMORY_PROPS = {"C01", "C02", "C03", "C04", "C05", "C07", "C09", "C10", "C11", "C15", "C16", "C17"}


# properties for which a leaked heap block requested by the crate itself is a violation
BLOCK_LEAK_PROPS = {"C16"}


def repo_path():
    return os.environ.get("VERIF_REPO", "/repo")


def base_env():
    e = dict(os.environ)
    e["RUST_BACKTRACE"] = "0"
    e["CARGO_NET_OFFLINE"] = "true"
    e.pop("RUSTFLAGS", None)
    e.pop("MIRIFLAGS", None)
    return e


def ensure_links():
    link = os.path.join(HARNESS, ".repo")
    want = repo_path()
    try:
        cur = os.readlink(link)
    except OSError:
        cur = None
    if cur != want:
        try:
            os.remove(link)
        except OSError:
            pass
        os.symlink(want, link)
    lock = os.path.join(HARNESS, "Cargo.lock")
    if not os.path.exists(lock) and os.path.exists(os.path.join(want, "Cargo.lock")):
        shutil.copy(os.path.join(want, "Cargo.lock"), lock)


class Run:
    """One engine invocation family: engine binary, build variant, argv, shards."""

    def __init__(self, engine, variant="debug", args=(), shards=1, label=None, miri_extra="", timeout=None,
                 advisory=False, features=None, expect=None, env=None):
        self.engine = engine
        self.variant = variant
        self.args = list(args)
        self.shards = shards
        self.label = label or f"{engine}/{variant}"
        self.miri_extra = miri_extra
        self.timeout = timeout
        self.advisory = advisory
        self.features = features
        self.expect = expect
        self.env = env or {}


MEMCHECK = {"memcheck": "release", "fhex-memcheck": "fhex-release", "memcheck-debug": "debug", "fhex-memcheck-debug": "fhex-debug"}


def base_variant(v):
    """the build a variant runs (valgrind variants run an ordinary native build)"""
    return MEMCHECK.get(v, v)


def target_dir(variant):
    variant = base_variant(variant)
    if variant in ("debug", "release"):
        return os.path.join(HARNESS, "target")
    return os.path.join(HARNESS, "target", "v-" + variant.replace("+", "_"))


def build_cmd(engine, variant):
    """Return (argv, env) that builds `engine` for `variant`; None if run builds it."""
    env = base_env()
    variant = base_variant(variant)
    if variant == "debug":
        return ["cargo", "build", "--offline", "--bin", engine], env
    if variant in ("release",):
        return ["cargo", "build", "--offline", "--release", "--bin", engine], env
    if variant == "fhex-debug":
        return ["cargo", "build", "--offline", "--features", "fasterhex", "--bin", engine,
                "--target-dir", target_dir(variant)], env
    if variant in ("fhex-release",):
        return ["cargo", "build", "--offline", "--release", "--features", "fasterhex", "--bin", engine,
                "--target-dir", target_dir("fhex-release")], env
    if variant == "nightly":
        env["RUSTFLAGS"] = "--cfg vkit_nightly"
        return ["cargo", "+nightly", "build", "--offline", "--bin", engine, "--target-dir", target_dir(variant)], env
    if variant in ("asan", "fhex-asan"):
        env["RUSTFLAGS"] = "-Zsanitizer=address -Cforce-frame-pointers=yes --cfg vkit_nightly"
        argv = ["cargo", "+nightly", "build", "--offline", "--target", "x86_64-unknown-linux-gnu", "--bin", engine,
                "--target-dir", target_dir(variant)]
        if variant == "fhex-asan":
            argv += ["--features", "fasterhex"]
        return argv, env
    if variant in ("miri", "miri-sb"):
        # build by running a no-op shard
        env["MIRIFLAGS"] = miri_flags(variant, "")
        return ["cargo", "+nightly", "miri", "run", "--offline", "--bin", engine, "--target-dir", target_dir("miri"),
                "--", "--noop"], env
    raise ValueError(variant)


def miri_flags(variant, extra):
    if variant == "miri-sb":
        f = "-Zmiri-strict-provenance -Zmiri-symbolic-alignment-check"
    else:
        f = MIRI_GATING
    return (f + " " + extra).strip()


def exe_path(engine, variant):
    variant = base_variant(variant)
    if variant == "debug":
        return os.path.join(HARNESS, "target", "debug", engine)
    if variant in ("release",):
        return os.path.join(HARNESS, "target", "release", engine)
    if variant == "fhex-debug":
        return os.path.join(target_dir(variant), "debug", engine)
    if variant in ("fhex-release",):
        return os.path.join(target_dir("fhex-release"), "release", engine)
    if variant == "nightly":
        return os.path.join(target_dir(variant), "debug", engine)
    if variant in ("asan", "fhex-asan"):
        return os.path.join(target_dir(variant), "x86_64-unknown-linux-gnu", "debug", engine)
    raise ValueError(variant)


def run_argv(run, shard, seed, tier, trace):
    common = ["--tier", tier, "--seed", str(seed), "--shard", f"{shard}/{run.shards}"] + run.args
    if trace:
        common.append("--trace")
    env = base_env()
    env.update(run.env)
    v = run.variant
    if v in ("miri", "miri-sb"):
        env["MIRIFLAGS"] = miri_flags(v, run.miri_extra)
        return (["cargo", "+nightly", "miri", "run", "--offline", "-q", "--bin", run.engine, "--target-dir",
                 target_dir("miri"), "--"] + common, env)
    if v in MEMCHECK:
        env["VKIT_NO_POISON"] = "1"
        return (["valgrind", "--tool=memcheck", "--error-exitcode=97", "--leak-check=full", "--errors-for-leak-kinds=definite",
                 "--show-leak-kinds=definite", "-q", exe_path(run.engine, v)] + common, env)
    if v in ("asan", "fhex-asan"):
        env["ASAN_OPTIONS"] = "halt_on_error=1:abort_on_error=0:detect_leaks=1:exitcode=98:allocator_may_return_null=1"
        env["ASAN_SYMBOLIZER_PATH"] = shutil.which("llvm-symbolizer-14") or shutil.which("llvm-symbolizer") or ""
        env.update(run.env)
        return [exe_path(run.engine, v)] + common, env
    return [exe_path(run.engine, v)] + common, env


class Result:
    def __init__(self, run, shard):
        self.run = run
        self.shard = shard
        self.rc = None
        self.vlines = []
        self.summary = None
        self.stderr_tail = ""
        self.stderr_full = ""
        self.last_case = None
        self.timed_out = False
        self.wall = 0.0
        self.detector_reports = []  # (kind, text)


UB_PAT = re.compile(r"^error: (Undefined Behavior|unsupported operation|memory leaked|the evaluated program (leaked memory|aborted execution|deadlocked|panicked))[^\n]*", re.M)


def execute(run, shard, seed, tier, trace, timeout):
    argv, env = run_argv(run, shard, seed, tier, trace)
    res = Result(run, shard)
    t0 = time.time()
    try:
        p = subprocess.Popen(argv, cwd=HARNESS, env=env, stdout=subprocess.PIPE, stderr=subprocess.PIPE,
                             start_new_session=True)
        try:
            out, err = p.communicate(timeout=timeout)
        except subprocess.TimeoutExpired:
            res.timed_out = True
            try:
                os.killpg(p.pid, signal.SIGKILL)
            except OSError:
                pass
            out, err = p.communicate()
        res.rc = p.returncode
    except OSError as e:
        res.rc = -999
        out, err = b"", str(e).encode()
    res.wall = time.time() - t0
    out = out.decode("utf-8", "replace")
    err = err.decode("utf-8", "replace")
    for line in out.splitlines():
        if line.startswith("V "):
            try:
                res.vlines.append(json.loads(line[2:]))
            except ValueError:
                pass
        elif line.startswith("S "):
            try:
                res.summary = json.loads(line[2:])
            except ValueError:
                pass
    marks = [l[2:] for l in err.splitlines() if l.startswith("@ ")]
    if marks:
        res.last_case = marks[-1]
    nonmark = "\n".join(l for l in err.splitlines() if not l.startswith("@ "))
    res.stderr_tail = nonmark[-4000:]
    res.stderr_full = nonmark[-200000:]
    v = run.variant
    if v in ("miri", "miri-sb"):
        for m in UB_PAT.finditer(nonmark):
            res.detector_reports.append(("miri", m.group(0)))
    elif v in ("asan", "fhex-asan"):
        for m in re.finditer(r"ERROR: (AddressSanitizer|LeakSanitizer): [^\n]*", nonmark):
            res.detector_reports.append(("asan", m.group(0)))
    elif v in MEMCHECK:
        for m in re.finditer(r"==\d+== (Invalid (read|write|free)[^\n]*|Conditional jump or move depends on uninitialised[^\n]*|Use of uninitialised[^\n]*|Mismatched free[^\n]*|[\d,]+ bytes in [\d,]+ blocks are definitely lost[^\n]*|Source and destination overlap[^\n]*)", nonmark):
            res.detector_reports.append(("memcheck", m.group(1)))
    return res


def strip_generics(fn):
    out, depth = [], 0
    for ch in fn:
        if ch == "<":
            depth += 1
        elif ch == ">":
            depth = max(0, depth - 1)
        elif depth == 0:
            out.append(ch)
    return re.sub(r"\s+", " ", "".join(out)).strip()


def leak_site(stderr):
    """first backtrace frame of a Miri leak report that lies in the crate under test"""
    lines = stderr.splitlines()
    for i, l in enumerate(lines):
        m = re.search(r"at (?:\./)?\.repo/src/([\w_]+\.rs):\d+", l)
        if m and i > 0:
            fn = re.sub(r"^\s*\d+:\s*", "", lines[i - 1])
            # keep the impl target + method: "<GenericArrayIter<..> as Clone>::clone" -> "GenericArrayIter as Clone ::clone"
            fn = fn.replace("generic_array::", "").replace("std::clone::", "").replace("std::", "")
            inner = re.match(r"^<(.*)>::(\w+)", fn)
            if inner:
                fn = strip_generics(inner.group(1)) + "::" + inner.group(2)
            else:
                fn = strip_generics(fn)
            return f"{m.group(1)}:{fn[:80]}"
    for l in lines:
        m = re.search(r"at (src/[\w_/]+\.rs):(\d+)", l)
        if m:
            return f"harness:{m.group(1)}:{m.group(2)}"
    return "unknown"


def execute_raw(argv, cwd, timeout):
    """run a plain executable that speaks the V/S protocol"""
    r = Run("custom", "debug")
    res = Result(r, 0)
    t0 = time.time()
    try:
        p = subprocess.run(argv, cwd=cwd, env=base_env(), stdout=subprocess.PIPE, stderr=subprocess.PIPE, timeout=timeout)
        res.rc = p.returncode
        out, err = p.stdout.decode("utf-8", "replace"), p.stderr.decode("utf-8", "replace")
    except subprocess.TimeoutExpired:
        res.timed_out = True
        out, err = "", ""
    res.wall = time.time() - t0
    for line in out.splitlines():
        try:
            if line.startswith("V "):
                res.vlines.append(json.loads(line[2:]))
            elif line.startswith("S "):
                res.summary = json.loads(line[2:])
        except ValueError:
            pass
    res.stderr_tail = err[-2000:]
    return res


def normalise_report(text):
    t = re.sub(r"0x[0-9a-fA-F]+", "0x?", text)
    t = re.sub(r"alloc\d+", "alloc?", t)
    t = re.sub(r"\b\d+\b", "#", t)
    return t[:160]


def op_of_case(case):
    # "C05 iter.nth Tok N=1 ..." -> "iter.nth"
    if not case:
        return "?"
    parts = case.split()
    return parts[1] if len(parts) > 1 else parts[0]


def load_known():
    try:
        with open(KNOWN) as f:
            return json.load(f).get("findings", [])
    except (OSError, ValueError):
        return []


def known_match(known, prop, sig):
    full = f"{prop}|{sig}"
    for k in known:
        if k.get("status") != "open" or k.get("property") != prop:
            continue
        sigs = k.get("signatures") or ([k["signature"]] if "signature" in k else [])
        if full in sigs:
            return k
    return None


def check_property(prop, spec, tier, seed, replay=None):
    """spec: dict(level, runs={quick:[Run], thorough:[Run]}, rule, explanation, min_events, assumptions)"""
    t_start = time.time()
    ensure_links()
    os.makedirs(EVIDENCE, exist_ok=True)
    if "custom" in spec:
        if replay:
            print(f"(replay for {prop}: the whole compiler-observed check is re-run; it is deterministic)")
        violations, advisory, inconclusive, build_log, agg = spec["custom"](tier, seed)
        return finish(prop, spec, tier, seed, violations, advisory, inconclusive, [], build_log, t_start, agg, replay=replay)
    runs = spec["runs"](tier, seed) if callable(spec["runs"]) else spec["runs"][tier]
    inconclusive = []
    notes = []

    if replay:
        with open(replay) as f:
            rp = json.load(f)
        wanted = rp.get("case")
        variant = rp.get("variant", "debug")
        eng = rp.get("engine")
        new = []
        for r in runs:
            if r.engine == eng and r.variant == variant:
                r2 = Run(r.engine, r.variant, r.args + ["--only", wanted], shards=1, label=r.label, miri_extra=r.miri_extra)
                new.append(r2)
                break
        if not new:
            new = [Run(eng, variant, rp.get("args", []) + ["--only", wanted])]
        runs = new
        seed = rp.get("seed", seed)

    # ---- build: one cargo invocation per variant with every engine it needs
    by_variant = {}
    for r in runs:
        v = base_variant(r.variant)
        by_variant.setdefault(v, [])
        if r.engine not in by_variant[v]:
            by_variant[v].append(r.engine)
    build_log = []
    build_violations = []
    for v, engines in by_variant.items():
        if v in ("miri", "miri-sb"):
            groups = [[e] for e in engines]  # cargo miri run takes one binary
        else:
            groups = [engines]
        for g in groups:
            argv, env = build_cmd(g[0], v)
            for extra in g[1:]:
                i = argv.index("--bin")
                argv[i:i] = ["--bin", extra]
            t0 = time.time()
            p = subprocess.run(argv, cwd=HARNESS, env=env, stdout=subprocess.PIPE, stderr=subprocess.STDOUT)
            dt = time.time() - t0
            build_log.append({"engines": g, "variant": v, "secs": round(dt, 1), "rc": p.returncode})
            if p.returncode != 0:
                txt = p.stdout.decode("utf-8", "replace")
                errs = [l for l in txt.splitlines() if l.startswith("error")][:5]
                hard = [l for l in txt.splitlines() if l.startswith("error[") or l.startswith("error:")]
                hard = [l for l in hard if not l.startswith("error: could not compile") and "aborting due to" not in l]
                const_eval = [l for l in hard if l.startswith("error[E0080]") or "constant evaluation is taking a long time" in l]
                if hard and len(const_eval) == len(hard):
                    # the engine's own const items (built from the crate's const fns) were rejected by
                    # rustc's const evaluator: that is an observation about the crate, not a broken harness
                    build_violations.append({"prop": prop, "sig": "build|const-eval:" + re.sub(r"\d+", "#", const_eval[0])[:120],
                                             "case": f"{prop} const items of engine {','.join(g)} ({v} build)", "detail": "\n".join(txt.splitlines()[-40:])[-1800:],
                                             "log": [], "variant": v, "engine": g[0], "args": []})
                else:
                    inconclusive.append(f"build failed for {','.join(g)}/{v}: {' | '.join(errs) or txt[-400:]}")
    if inconclusive or build_violations:
        agg0 = {}
        if "also_custom" in spec and not replay:
            # the engine does not build against this tree; the compiler-observed half (accept
            # probes / const items) is independent of the engine and can still decide
            v2, a2, inc2, bl2, agg2 = spec["also_custom"](tier, seed)
            fams = tuple(spec.get("also_families", ()))
            for v in v2:
                if v["sig"].split("|")[0].startswith(fams):
                    v = dict(v)
                    v["prop"] = prop
                    build_violations.append(v)
            inconclusive.extend(inc2)
            build_log.extend(bl2)
            agg0.update(agg2)
        return finish(prop, spec, tier, seed, build_violations, [], inconclusive, notes, build_log, t_start, agg0)

    # ---- run
    default_timeout = 900 if tier == "quick" else 5400
    jobs = []
    for r in runs:
        trace = r.variant not in ("debug", "release", "fhex-debug", "fhex-release", "nightly")
        for s in range(r.shards):
            jobs.append((r, s, trace))
    results = []
    with cf.ThreadPoolExecutor(max_workers=NCPU) as ex:
        futs = [ex.submit(execute, r, s, seed, tier, tr, r.timeout or default_timeout) for (r, s, tr) in jobs]
        for f in futs:
            results.append(f.result())

    # ---- a native child that died outside an oracle: re-run with --trace to attribute
    for i, res in enumerate(results):
        if res.run.variant in ("debug", "release", "fhex-debug", "fhex-release", "nightly") and res.summary is None and not res.timed_out:
            again = execute(res.run, res.shard, seed, tier, True, res.run.timeout or default_timeout)
            again.vlines = res.vlines or again.vlines
            results[i] = again

    violations = []  # dict(sig, case, detail, variant, engine, log, args)
    advisory = []
    agg = {}
    for res in results:
        r = res.run
        sink = advisory if r.advisory else violations
        for v in res.vlines:
            sink.append({"prop": v.get("prop", prop), "sig": v["sig"], "case": v["case"], "detail": v.get("detail", ""),
                         "log": v.get("log", []), "variant": r.variant, "engine": r.engine, "args": r.args})
        if res.timed_out:
            inconclusive.append(f"watchdog fired for {r.label} shard {res.shard} after {res.wall:.0f}s")
            continue
        died = res.summary is None
        if res.detector_reports:
            kind, text = res.detector_reports[0]
            case = res.last_case or "?"
            sig = f"{op_of_case(case)}|{kind}:{normalise_report(text)}"
            if kind == "asan" and "LeakSanitizer" in text:
                # reported at process exit; element-payload leaks gate the ownership properties,
                # crate-side block leaks belong to C16
                case = "(reported at process exit by LeakSanitizer)"
                sig = "exit-leak|asan:LeakSanitizer"
                if prop not in BLOCK_LEAK_PROPS and "vkit::tok::" not in res.stderr_full:
                    advisory.append({"sig": sig + " [heap block leak: C16 territory]", "case": case, "detail": text})
                    kind = None
            if kind == "miri" and "memory leaked" in text:
                # reported at process exit: the last case marker is not the culprit;
                # attribute to the allocation's first frame inside the crate under test
                site = leak_site(res.stderr_full)
                case = f"(reported at process exit; allocation site: {site})"
                sig = f"exit-leak|miri:memory leaked@{site}"
                m = re.search(r"memory leaked:[^\n]*\n\s*-->\s*(\S+?):\d+", res.stderr_full)
                alloc_file = m.group(1) if m else ""
                if prop not in BLOCK_LEAK_PROPS and not alloc_file.endswith("src/tok.rs"):
                    # a leaked heap *block* requested by the crate (not an element's payload):
                    # that is C16's statement, not this property's -> recorded, not gating
                    advisory.append({"sig": sig + " [heap block leak: C16 territory]", "case": case, "detail": text})
                    kind = None
            entry = {"prop": prop, "sig": sig, "case": case, "detail": text + "\n" + res.stderr_tail[-1500:], "log": [],
                     "variant": r.variant, "engine": r.engine, "args": r.args}
            if kind is None:
                pass  # already recorded as advisory above
            elif r.advisory:
                advisory.append(entry)
            elif case != "?" or kind == "miri" or prop in MEMORY_PROPS:
                violations.append(entry)
            else:
                inconclusive.append(f"{kind} report in {r.label} outside any recorded case: {text}")
        elif died:
            case = res.last_case or "?"
            rc = res.rc
            signame = ""
            if rc is not None and rc < 0:
                try:
                    signame = signal.Signals(-rc).name
                except ValueError:
                    signame = f"signal{-rc}"
            tail = res.stderr_tail[-600:]
            if r.advisory:
                advisory.append({"sig": f"died rc={rc}", "case": case, "detail": tail})
            elif case != "?" and (signame in ("SIGSEGV", "SIGABRT", "SIGBUS", "SIGILL", "SIGFPE") or rc in (97, 98, 101, 134, 139)):
                # the process died while executing a recorded case of the crate under test:
                # whatever the property, the operation did not do what the model does
                sig = f"{op_of_case(case)}|crash:{signame or rc}"
                violations.append({"prop": prop, "sig": sig, "case": case, "detail": f"child died rc={rc} {signame}: {tail}",
                                   "log": [], "variant": r.variant, "engine": r.engine, "args": r.args})
            else:
                inconclusive.append(f"{r.label} shard {res.shard} died rc={rc} {signame} during '{case}': {tail[-300:]}")
        if res.summary:
            a = agg.setdefault(r.label, {"cases": 0, "nontrivial": 0, "violations": 0, "counters": {}, "ops": {}, "samples": [],
                                         "shards": 0, "wall_s": 0.0, "notes": []})
            s = res.summary
            a["cases"] += s["cases"]
            a["nontrivial"] += s["nontrivial"]
            a["violations"] += s["violations"]
            a["shards"] += 1
            a["wall_s"] = round(max(a["wall_s"], res.wall), 1)
            for k, v in s["counters"].items():
                a["counters"][k] = a["counters"].get(k, 0) + v
            for k, v in s["ops"].items():
                a["ops"][k] = a["ops"].get(k, 0) + v
            if len(a["samples"]) < 12:
                a["samples"].extend(s["samples"][: 12 - len(a["samples"])])
            a["notes"].extend(s.get("notes", [])[:8])
            ex = s.get("exemplar")
            if ex and (not a.get("exemplar") or len(ex.get("ledger_events", [])) > len(a["exemplar"].get("ledger_events", []))):
                a["exemplar"] = ex
            if s["cases"] == 0 and not replay and r.shards <= 1:
                inconclusive.append(f"{r.label} executed zero cases")
    if "also_custom" in spec and not replay:
        # the compiler-observed half of this property (generated const items)
        v2, a2, inc2, bl2, agg2 = spec["also_custom"](tier, seed)
        fams = tuple(spec.get("also_families", ()))
        for v in v2:
            fam = v["sig"].split("|")[0]
            if fam.startswith(fams):
                v = dict(v)
                v["prop"] = prop
                violations.append(v)
        inconclusive.extend(inc2)
        build_log.extend(bl2)
        for k, a in agg2.items():
            agg[k] = a
    return finish(prop, spec, tier, seed, violations, advisory, inconclusive, notes, build_log, t_start, agg, replay=replay)


def finish(prop, spec, tier, seed, violations, advisory, inconclusive, notes, build_log, t_start, agg, replay=None):
    known = load_known()
    real = []
    known_hits = {}
    for v in violations:
        p = v.get("prop", prop)
        if p != prop:
            # an engine shared between properties reported for the other one; not ours
            continue
        k = known_match(known, prop, v["sig"])
        if k is not None:
            known_hits.setdefault(k.get("what", k.get("signature", "?")), 0)
            known_hits[k.get("what", k.get("signature", "?"))] += 1
        else:
            real.append(v)

    total_cases = sum(a["cases"] for a in agg.values())
    total_nontrivial = sum(a["nontrivial"] for a in agg.values())
    min_cases = spec.get("min_cases", 1)
    if not inconclusive and not real and not replay and total_cases < min_cases:
        inconclusive.append(f"only {total_cases} cases executed (< {min_cases}): the monitors observed too little")
    if not inconclusive and not real and not replay:
        for key in spec.get("must_count", []):
            tot = sum(a["counters"].get(key, 0) for a in agg.values())
            if tot == 0:
                inconclusive.append(f"monitor counter '{key}' is zero: the mechanism under test was never exercised")

    # ---- replay files
    replay_paths = []
    if real:
        os.makedirs(REPLAYS, exist_ok=True)
        seen = set()
        for v in real:
            if v["sig"] in seen:
                continue
            seen.add(v["sig"])
            h = hashlib.sha1((prop + v["sig"]).encode()).hexdigest()[:8]
            path = os.path.join(REPLAYS, f"{prop}-{h}.json")
            with open(path, "w") as f:
                json.dump({"property": prop, "engine": v.get("engine"), "variant": v.get("variant"), "seed": seed, "tier": tier,
                           "args": v.get("args", []), "case": v["case"], "signature": f"{prop}|{v['sig']}",
                           "detail": v["detail"], "observed": v.get("log", [])}, f, indent=1)
            replay_paths.append((v, path))

    # ---- evidence
    samples = []
    for label, a in agg.items():
        if a.get("exemplar"):
            samples.append({"run": label, "case": a["exemplar"]["case"], "ledger_events_observed": a["exemplar"]["ledger_events"]})
    for label, a in agg.items():
        for s in a["samples"][:6]:
            samples.append({"run": label, "case": s})
    per_run = {}
    ops_all = {}
    counters_all = {}
    for label, a in agg.items():
        per_run[label] = {"cases": a["cases"], "distinct_nontrivial": a["nontrivial"], "violations_reported": a["violations"],
                          "shards": a["shards"], "wall_s": a["wall_s"], "counters": a["counters"], "notes": a["notes"][:8]}
        for k, v in a["ops"].items():
            ops_all[k] = ops_all.get(k, 0) + v
        for k, v in a["counters"].items():
            if not k.startswith("viol:"):
                counters_all[k] = counters_all.get(k, 0) + v
    # the same case descriptors are replayed under several detectors (variants of one
    # engine): count them once (max over that engine's runs); different engines
    # enumerate disjoint cases: sum over engines
    per_engine = {}
    for label, a in agg.items():
        eng = label.split("/")[0]
        per_engine[eng] = max(per_engine.get(eng, 0), a["nontrivial"])
    distinct_nontrivial = sum(per_engine.values())
    coverage = {
        "evaluations": total_cases,
        # the same case descriptor is replayed under several detectors; count distinct
        # descriptors once: the largest single run's distinct count is a lower bound
        "distinct_nontrivial": distinct_nontrivial,
        "rule": spec.get("rule", ""),
        "samples": samples[:24] or [{"note": "no case ran"}],
        "explanation": spec.get("explanation", ""),
        "exhaustive": bool(spec.get("exhaustive", {}).get(tier, False)),
        "distinct_operation_labels": len(ops_all),
        "operations": ops_all if len(ops_all) <= 400 else dict(list(sorted(ops_all.items()))[:400]),
        "monitor_events": counters_all,
        "per_run": per_run,
        "nontrivial_sum_over_runs": total_nontrivial,
        "builds": build_log,
        "detector_reports": len([v for v in violations if ":" in v["sig"].split("|")[-1] and v["sig"].split("|")[-1].split(":")[0] in ("miri", "asan", "memcheck", "crash")]),
        "advisory": [{"sig": a.get("sig"), "case": a.get("case")} for a in advisory[:20]],
        "known_findings_hit": known_hits,
        "inconclusive": inconclusive,
        "violation_signatures": sorted({v["sig"] for v in real})[:50],
    }
    ev = {
        "property_id": prop,
        "tier": tier,
        "seed": int(seed),
        "level": spec["level"],
        "coverage": coverage,
        "assumptions": spec.get("assumptions", []),
        "wall_s": round(time.time() - t_start, 2),
        "violations": len(real),
    }
    if not replay and not os.environ.get("VERIF_NO_EVIDENCE"):
        with open(os.path.join(EVIDENCE, f"{prop}.json"), "w") as f:
            json.dump(ev, f, indent=1)

    # ---- verdict
    for what, n in known_hits.items():
        print(f"KNOWN-FINDING: property={prop} {what} ({n} cases)")
    if real:
        for v, path in replay_paths:
            print(f"VIOLATION property={prop} replay={path}")
            print(f"  signature: {prop}|{v['sig']}")
            print(f"  case: {v['case']}  [{v.get('engine')}/{v.get('variant')}]")
            print(f"  detail: {v['detail'][:600]}")
        print(f"  ({len(real)} violating observations, {len(replay_paths)} distinct signatures)")
        return 1
    if inconclusive:
        for r in inconclusive[:10]:
            print(f"INCONCLUSIVE property={prop} reason={r}")
        return 2
    events = sum(v for k, v in counters_all.items() if k.startswith("ledger."))
    print(f"HELD property={prop} tier={tier} cases={total_cases} distinct_nontrivial={distinct_nontrivial} "
          f"ledger_events={events} runs={len(agg)} wall={ev['wall_s']}s")
    for a in advisory[:5]:
        print(f"  advisory (not gating): {a.get('sig')} in {a.get('case')}")
    return 0
