"""Per-property plans: which engine runs, under which detector, with what bounds."""
from .driver import Run
from . import custom

NATIVE = "Tok,ZTok,Tok24"


def c04(tier, seed):
    runs = [
        Run("faults", "debug", ["prop=C04", "--flavours", NATIVE], shards=4),
        Run("faults", "release", ["prop=C04", "--flavours", NATIVE], shards=4),
        Run("faults", "miri", ["prop=C04", "--flavours", "HeapTok", "--maxn", "3"], shards=16, label="faults/miri(HeapTok,N<=3)"),
    ]
    if tier == "thorough":
        runs = [
            Run("faults", "debug", ["prop=C04", "--flavours", NATIVE], shards=8),
            Run("faults", "release", ["prop=C04", "--flavours", NATIVE], shards=8),
            Run("faults", "miri", ["prop=C04", "--flavours", "HeapTok", "--maxn", "5"], shards=32, label="faults/miri(HeapTok,N<=5)"),
            Run("faults", "miri", ["prop=C04", "--flavours", "ZTok", "--maxn", "3"], shards=16, label="faults/miri(ZTok,N<=3)"),
            Run("faults", "asan", ["prop=C04", "--flavours", "HeapTok"], shards=8),
            Run("faults", "memcheck", ["prop=C04", "--flavours", "HeapTok", "--maxn", "4"], shards=16),
        ]
    return runs


def c05(tier, seed):
    runs = [
        Run("faults", "debug", ["prop=C05", "--flavours", "Tok,Tok24,ZTok"], shards=4),
        Run("faults", "release", ["prop=C05", "--flavours", "Tok,Tok24,ZTok"], shards=4),
        Run("faults", "miri", ["prop=C05", "--flavours", "HeapTok", "--maxn", "3"], shards=16, miri_extra="-Zmiri-ignore-leaks",
            label="faults/miri(HeapTok,N<=3)"),
    ]
    if tier == "thorough":
        runs = [
            Run("faults", "debug", ["prop=C05", "--flavours", "Tok,Tok24,ZTok"], shards=8),
            Run("faults", "release", ["prop=C05", "--flavours", "Tok,Tok24,ZTok"], shards=8),
            Run("faults", "miri", ["prop=C05", "--flavours", "HeapTok", "--maxn", "4"], shards=32, miri_extra="-Zmiri-ignore-leaks",
                label="faults/miri(HeapTok,N<=4)"),
            Run("faults", "asan", ["prop=C05", "--flavours", "HeapTok"], shards=8,
                env={"ASAN_OPTIONS": "halt_on_error=1:abort_on_error=0:detect_leaks=0:exitcode=98"}, label="faults/asan(leaks waived)"),
        ]
    return runs


ENGINES = {
    "traitprobe": ({"C12"}, "run-time reflection of trait facts (Send/Sync/Copy/Clone conditions, type-level length relations)"),
    "corpus": ({"C12"}, "331 generated accept/reject programs judged by cargo check (separate crate /verif/corpus)"),
    "constprobe": ({"C18"}, "generated const items: rustc's const evaluator as UB monitor + run-time agreement (separate crate /verif/constprobe)"),
    "serdeq": ({"C17"}, "serde: recording serializer, format references, scripted deserializer grid"),
    "arrmac": ({"C20"}, "generated arr!/box_arr! invocations with logging element expressions"),
    "zc": ({"C19"}, "zeroize visit counting and constant-default reach, run time + const items"),
    "hex": ({"C14"}, "LowerHex/UpperHex vs per-byte reference; built with and without faster-hex"),
    "cmpfmt": ({"C13"}, "comparison / hashing / Debug vs slice; recording hasher; map lookups"),
    "order": ({"C08"}, "call-order recorders over generate/map/zip/fold/clone/default x receiver forms"),
    "chunks": ({"C10"}, "chunk regrouping: partition arithmetic on addresses/extents for every L, write-through, N = 0"),
    "regroup": ({"C11"}, "flatten/unflatten: row-major identity order, same-storage by-reference views"),
    "layout": ({"C01"}, "size/align observers (full cross product in layoutx0..7), materialisation, drop tiling, round trips"),
    "views": ({"C02"}, "borrowed views: address/extent, write-through, slice reinterpretation outcome matrix, by-value conversions"),
    "heap": ({"C15", "C16"}, "alloc-feature operations under a recording allocator; panic and allocation-failure injection; small-stack children"),
    "collect": ({"C07"}, "collecting forms vs scripted sources (poll/hint logs)"),
    "history": ({"C03"}, "random chained ownership histories over a typed pool vs shadow Vec model + ledger"),
    "seqops": ({"C09"}, "Lengthen/Shorten/Split/Concat/Remove vs Vec, exhaustive N<=8 + boundary shapes"),
    "iterq": ({"C06"}, "by-value iterator vs VecDeque / native-array twins: exhaustive one-step + random sequences"),
    "faults": ({"C04", "C05"}, "fault enumeration: injected panics at every callback index / destructor bombs, ownership ledger; native + Miri + ASan + memcheck"),
}

# properties not claimed (yet), with the reason that goes to MANIFEST.not_applicable
NOT_CLAIMED = {}

def c06(tier, seed):
    if tier == "quick":
        return [
            Run("iterq", "debug", ["--flavours", "Tok,u32,ZTok,String"], shards=4),
            Run("iterq", "release", ["--flavours", "Tok,u32,ZTok,String"], shards=4),
            Run("iterq", "miri", ["--flavours", "HeapTok,ZTok", "--maxn", "3", "--budget", "12"], shards=16, label="iterq/miri(N<=3)"),
        ]
    return [
        Run("iterq", "debug", ["--flavours", "Tok,u32,ZTok,String"], shards=16),
        Run("iterq", "release", ["--flavours", "Tok,u32,ZTok,String"], shards=16),
        Run("iterq", "miri", ["--flavours", "HeapTok,ZTok,u32", "--maxn", "5", "--budget", "40", "--part", "A"], shards=32, label="iterq/miri(A,N<=5)"),
        Run("iterq", "miri", ["--flavours", "HeapTok", "--maxn", "17", "--budget", "60", "--part", "B"], shards=16, label="iterq/miri(B,N<=17)"),
        Run("iterq", "asan", ["--flavours", "HeapTok,String", "--budget", "4000"], shards=8),
    ]


ALLNATIVE = "Tok,Tok24,ZTok,u8,u32,[u64;3],(),String"
# + odd-sized and wide (512-byte, plain and tracked) elements: size thresholds in the move paths
SEQNATIVE = ALLNATIVE + ",[u8;3],Fat(512B),FatTok(512B,tracked)"


def c09(tier, seed):
    if tier == "quick":
        return [
            Run("seqops", "debug", ["--flavours", SEQNATIVE, "big=1"], shards=4),
            Run("seqops", "release", ["--flavours", SEQNATIVE, "big=1"], shards=4),
            Run("seqops", "miri", ["--flavours", "HeapTok,ZTok,u8,[u64;3],Fat(512B)", "--maxn", "4"], shards=16, label="seqops/miri(N<=4)"),
            Run("seqops", "miri", ["--flavours", "u8", "--maxn", "65", "--part", "big", "big=1"], shards=8, label="seqops/miri(big<=65)"),
        ]
    return [
        Run("seqops", "debug", ["--flavours", SEQNATIVE], shards=8),
        Run("seqops", "release", ["--flavours", SEQNATIVE], shards=8),
        Run("seqops", "miri", ["--flavours", "HeapTok,ZTok,u8,u32,[u64;3],(),Tok24,[u8;3],Fat(512B),FatTok(512B,tracked)", "--maxn", "6", "--part", "small"], shards=32, label="seqops/miri(N<=6)"),
        Run("seqops", "miri", ["--flavours", "u8,ZTok", "--maxn", "65", "--part", "big"], shards=8, label="seqops/miri(big<=65)"),
        Run("seqops", "asan", ["--flavours", "HeapTok,String,u8,[u64;3]"], shards=4),
        Run("seqops", "miri-sb", ["--flavours", "u8,HeapTok", "--maxn", "3", "--part", "small"], shards=8, label="seqops/miri-stacked-borrows(advisory)", advisory=True),
    ]


def c03(tier, seed):
    if tier == "quick":
        return [
            Run("history", "debug", ["--flavours", "Tok,ZTok,Tok24,u32,String", "--budget", "2400"], shards=8),
            Run("history", "release", ["--flavours", "Tok,ZTok,Tok24,u32,String", "--budget", "2400"], shards=8),
            Run("history", "miri", ["--flavours", "HeapTok,ZTok", "--budget", "32"], shards=16, label="history/miri"),
        ]
    return [
        Run("history", "debug", ["--flavours", "Tok,ZTok,Tok24,u32,String", "--budget", "120000"], shards=16),
        Run("history", "release", ["--flavours", "Tok,ZTok,Tok24,u32,String", "--budget", "120000"], shards=16),
        Run("history", "miri", ["--flavours", "HeapTok,ZTok,u32", "--budget", "1600"], shards=32, label="history/miri"),
        Run("history", "asan", ["--flavours", "HeapTok,String", "--budget", "20000"], shards=16),
    ]


def c07(tier, seed):
    if tier == "quick":
        return [
            Run("collect", "debug", ["--flavours", "Tok,u32,ZTok,Fat"], shards=8),
            Run("collect", "release", ["--flavours", "Tok,u32,ZTok,Fat"], shards=8),
            Run("collect", "miri", ["--flavours", "HeapTok", "--maxn", "2"], shards=16, label="collect/miri(N<=2)"),
        ]
    return [
        Run("collect", "debug", ["--flavours", "Tok,u32,ZTok,Fat"], shards=16),
        Run("collect", "release", ["--flavours", "Tok,u32,ZTok,Fat"], shards=16),
        Run("collect", "miri", ["--flavours", "HeapTok,ZTok", "--maxn", "4"], shards=32, label="collect/miri(N<=4)"),
        Run("collect", "memcheck", ["--flavours", "HeapTok,u32", "--maxn", "4"], shards=16),
        Run("collect", "asan", ["--flavours", "HeapTok"], shards=8),
    ]


HEAP15 = "u8,u64,Tok,ZTok,[u64;3]"
HEAP16 = "u8,u64,Tok,ZTok,(),[u64;3]"


def c15(tier, seed):
    if tier == "quick":
        return [
            Run("heap", "debug", ["prop=C15", "--flavours", HEAP15], shards=4),
            Run("heap", "release", ["prop=C15", "--flavours", HEAP15], shards=4),
            Run("heap", "miri", ["prop=C15", "--flavours", "HeapTok,u8,ZTok", "--maxn", "3"], shards=16, label="heap/miri(N<=3)"),
        ]
    return [
        Run("heap", "debug", ["prop=C15", "--flavours", HEAP15], shards=8),
        Run("heap", "release", ["prop=C15", "--flavours", HEAP15], shards=8),
        Run("heap", "miri", ["prop=C15", "--flavours", "HeapTok,u8,u64,ZTok,[u64;3]", "--maxn", "17"], shards=32, label="heap/miri(N<=17)"),
        Run("heap", "asan", ["prop=C15", "--flavours", "HeapTok,u8,u64", "--part", "nobig"], shards=8),
    ]


def c16(tier, seed):
    if tier == "quick":
        return [
            Run("heap", "debug", ["prop=C16", "--flavours", HEAP16], shards=8),
            Run("heap", "release", ["prop=C16", "--flavours", HEAP16], shards=8),
            Run("heap", "miri", ["prop=C16", "--flavours", "HeapTok,u64,ZTok", "--maxn", "2"], shards=16, label="heap/miri(N<=2)"),
            Run("heap", "nightly", ["prop=C16", "--flavours", "u64,Tok,ZTok", "--maxn", "3", "--part", "allocfail_unwind"], shards=8, label="heap/nightly(unwinding alloc-error hook,N<=3)"),
        ]
    return [
        Run("heap", "debug", ["prop=C16", "--flavours", HEAP16], shards=16),
        Run("heap", "release", ["prop=C16", "--flavours", HEAP16], shards=16),
        Run("heap", "miri", ["prop=C16", "--flavours", "HeapTok,u8,u64,ZTok,(),[u64;3]", "--maxn", "8"], shards=32, label="heap/miri(N<=8)"),
        Run("heap", "asan", ["prop=C16", "--flavours", "HeapTok,u64,ZTok"], shards=8),
        Run("heap", "nightly", ["prop=C16", "--flavours", HEAP16, "--part", "allocfail_unwind"], shards=16, label="heap/nightly(unwinding alloc-error hook)"),
    ]


VIEWS = "u8,u32,Tok,Tok24,ZTok,()"


def c02(tier, seed):
    if tier == "quick":
        return [
            Run("views", "debug", ["--flavours", VIEWS], shards=4),
            Run("views", "release", ["--flavours", VIEWS], shards=4),
            Run("views", "miri", ["--flavours", "HeapTok,ZTok,u8,u32", "--maxn", "17"], shards=16, label="views/miri(N<=17)"),
        ]
    return [
        Run("views", "debug", ["--flavours", VIEWS], shards=8),
        Run("views", "release", ["--flavours", VIEWS], shards=8),
        Run("views", "miri", ["--flavours", "HeapTok,ZTok,u8,u32,Tok24,()", "--maxn", "65"], shards=32, label="views/miri(N<=65)"),
        Run("views", "miri-sb", ["--flavours", "u8,ZTok", "--maxn", "17"], shards=8, label="views/miri-stacked-borrows(advisory)", advisory=True),
        Run("views", "asan", ["--flavours", "HeapTok,u8,u32,()"], shards=8),
    ]


def c01(tier, seed):
    parts = [Run(f"layoutx{k}", "debug", [], shards=1, label=f"layoutx{k}/debug") for k in range(8)]
    if tier == "quick":
        return [Run("layout", "debug", [], shards=2)] + parts + [
            Run("layout", "miri", ["--part", "roundtrip,lattice,boxed,views", "--maxn", "8"], shards=16, label="layout/miri(N<=8)"),
        ]
    return [Run("layout", "debug", [], shards=4), Run("layout", "release", [], shards=4)] + parts + [
        Run(f"layoutx{k}", "release", [], shards=1, label=f"layoutx{k}/release") for k in range(8)
    ] + [
        Run("layout", "miri", ["--part", "roundtrip,lattice,tiling,boxed,views", "--maxn", "100"], shards=32, label="layout/miri(N<=100)"),
    ]


CHUNKF = "u8,u32,(u8,u16),[u8;3],(),Tok,ZTok"


def c10(tier, seed):
    # the const-evaluator half of C10 is added by the constprobe machinery (see c10_const below)
    if tier == "quick":
        runs = [
            Run("chunks", "debug", ["--flavours", CHUNKF], shards=4),
            Run("chunks", "release", ["--flavours", CHUNKF], shards=4),
            Run("chunks", "miri", ["--flavours", "u8,u32,(u8,u16),()", "--maxn", "8"], shards=16, label="chunks/miri(N<=8)"),
        ]
    else:
        runs = [
            Run("chunks", "debug", ["--flavours", CHUNKF], shards=8),
            Run("chunks", "release", ["--flavours", CHUNKF], shards=8),
            Run("chunks", "miri", ["--flavours", "u8,u32,(u8,u16),[u8;3],(),Tok", "--maxn", "17"], shards=32, label="chunks/miri(N<=17)"),
            Run("chunks", "miri-sb", ["--flavours", "u8", "--maxn", "3"], shards=4, label="chunks/miri-stacked-borrows(advisory)", advisory=True),
            Run("chunks", "asan", ["--flavours", "u8,u32,[u8;3],Tok"], shards=8),
        ]
    return runs


REGF = "Tok,ZTok,u32,Tok24,(),String,FatTok"


def c11(tier, seed):
    if tier == "quick":
        return [
            Run("regroup", "debug", ["--flavours", REGF], shards=2),
            Run("regroup", "release", ["--flavours", REGF], shards=2),
            Run("regroup", "miri", ["--flavours", "HeapTok,ZTok,u32", "--maxn", "9", "--part", "small"], shards=16, label="regroup/miri(NM<=9)"),
        ]
    return [
        Run("regroup", "debug", ["--flavours", REGF], shards=4),
        Run("regroup", "release", ["--flavours", REGF], shards=4),
        Run("regroup", "miri", ["--flavours", "HeapTok,ZTok,u32,Tok24,()", "--maxn", "36", "--part", "small"], shards=32, label="regroup/miri(NM<=36)"),
        Run("regroup", "miri", ["--flavours", "u32,ZTok", "--maxn", "65", "--part", "big"], shards=4, label="regroup/miri(big<=65)"),
        Run("regroup", "asan", ["--flavours", "HeapTok,String,u32"], shards=4),
        Run("regroup", "miri-sb", ["--flavours", "u32,HeapTok", "--maxn", "9", "--part", "small"], shards=8, label="regroup/miri-stacked-borrows(advisory)", advisory=True),
    ]


def c08(tier, seed):
    if tier == "quick":
        return [
            Run("order", "debug", [], shards=4),
            Run("order", "release", [], shards=4),
            Run("order", "miri", ["--maxn", "5"], shards=16, label="order/miri(N<=5)"),
        ]
    return [
        Run("order", "debug", [], shards=8),
        Run("order", "release", [], shards=8),
        Run("order", "miri", ["--maxn", "9"], shards=32, label="order/miri(N<=9)"),
    ]


def c13(tier, seed):
    if tier == "quick":
        return [Run("cmpfmt", "debug", ["--maxn", "4096"], shards=8), Run("cmpfmt", "release", ["--maxn", "4096"], shards=8)]
    return [Run("cmpfmt", "debug", ["--maxn", "4096"], shards=16), Run("cmpfmt", "release", ["--maxn", "4096"], shards=16),
            Run("cmpfmt", "miri", ["--maxn", "2", "--budget", "3"], shards=16, label="cmpfmt/miri(N<=2)")]


def c14(tier, seed):
    if tier == "quick":
        return [
            Run("hex", "debug", ["--maxn", "4096", "huge=1"], shards=4, label="hex/debug(default)"),
            Run("hex", "fhex-debug", ["--maxn", "4096", "huge=1"], shards=4, label="hex/debug(faster-hex)"),
            Run("hex", "fhex-release", ["--maxn", "4096", "huge=1"], shards=4, label="hex/release(faster-hex)"),
            Run("hex", "miri", ["--maxn", "17"], shards=12, label="hex/miri(fallback,N<=17)"),
            Run("hex", "miri", ["--maxn", "4096", "only_big=1", "big_n=1025"], shards=16, label="hex/miri(fallback,N=1025)"),
        ]
    return [
        Run("hex", "debug", ["--maxn", "4096", "huge=1"], shards=8, label="hex/debug(default)"),
        Run("hex", "fhex-debug", ["--maxn", "4096", "huge=1"], shards=8, label="hex/debug(faster-hex)"),
        Run("hex", "release", ["--maxn", "4096", "huge=1"], shards=8, label="hex/release(default)"),
        Run("hex", "fhex-release", ["--maxn", "4096", "huge=1"], shards=8, label="hex/release(faster-hex)"),
        Run("hex", "miri", ["--maxn", "256"], shards=32, label="hex/miri(fallback,N<=256)"),
        Run("hex", "miri", ["--maxn", "4096", "only_big=1"], shards=32, label="hex/miri(fallback,N>1024)"),
        Run("hex", "asan", ["--maxn", "4096"], shards=8, label="hex/asan(default)"),
        Run("hex", "fhex-asan", ["--maxn", "4096"], shards=8, label="hex/asan(faster-hex)"),
        Run("hex", "fhex-memcheck", ["--maxn", "1024"], shards=16, label="hex/memcheck(faster-hex)"),
        Run("hex", "fhex-memcheck-debug", ["--maxn", "4096"], shards=16, label="hex/memcheck(faster-hex,debug build)"),
        Run("hex", "memcheck-debug", ["--maxn", "4096"], shards=16, label="hex/memcheck(default,debug build)"),
    ]


def c19(tier, seed):
    if tier == "quick":
        return [Run("zc", "debug", [], shards=4), Run("zc", "release", [], shards=4), Run("zc", "miri", ["--maxn", "17"], shards=16, label="zc/miri(N<=17)")]
    return [Run("zc", "debug", [], shards=8), Run("zc", "release", [], shards=8),
            Run("zc", "miri", ["--maxn", "64"], shards=32, label="zc/miri(N<=64)")]


def c20(tier, seed):
    if tier == "quick":
        return [Run("arrmac", "debug", ["--maxn", "4096"], shards=4), Run("arrmac", "release", ["--maxn", "4096"], shards=4), Run("arrmac", "miri", ["--maxn", "16"], shards=16, label="arrmac/miri(count<=16)")]
    return [Run("arrmac", "debug", ["--maxn", "4096"], shards=8), Run("arrmac", "release", ["--maxn", "4096"], shards=8),
            Run("arrmac", "miri", ["--maxn", "64"], shards=32, label="arrmac/miri(count<=64)")]


def c17(tier, seed):
    if tier == "quick":
        return [Run("serdeq", "debug", [], shards=4), Run("serdeq", "release", [], shards=4), Run("serdeq", "miri", ["--maxn", "3"], shards=16, label="serdeq/miri(N<=3)")]
    return [Run("serdeq", "debug", [], shards=8), Run("serdeq", "release", [], shards=8),
            Run("serdeq", "miri", ["--maxn", "5"], shards=32, label="serdeq/miri(N<=5)"),
            Run("serdeq", "memcheck", ["--maxn", "8"], shards=16)]


SPECS = {
    "C12": dict(
        engine="corpus",
        runs=lambda tier, seed: [Run("traitprobe", "debug", [], shards=1)],
        also_custom=custom.c12_corpus,
        also_families=("corpus",),
        technique="compiler-verdict observation: rustc's accept/reject verdict (with error-code classes) on a generated corpus of ~490 minimal programs (214 accept, 278 reject) in accept/reject pairs (zip/compare/split/pop/convert across lengths, incl. the inverted_zip entry points; generic contexts; zero-sized elements in every length-checked conversion; every &mut-returning API fed a shared reference; outlive/alias pairs for every reference-returning API), plus run-time reflection of ~1100 trait facts decided by the real trait solver",
        level="other",
        level_text=("(a) traitprobe: the inherent-const-beats-trait-const idiom makes the real trait solver report, in a compiled binary, whether "
                    "concrete types satisfy bounds: GenericArray / GenericArrayIter / Box / & are Send, Sync, Copy, Clone exactly when the element "
                    "type is (11 element types incl. Rc, Cell, raw pointers, MutexGuard, a non-Clone type; N in {0,1,2,3,8,16,1024}); Shorten/Remove "
                    "absent on U0; Split<K> absent for K>N in all three receiver forms; Lengthen/Shorten/Concat/Remove/Split/Flatten/Unflatten "
                    "outputs have the arithmetic length and not its neighbour; Const<K> maps to U<K> only; ==/< only between equal lengths; native "
                    "array, &[T;K], AsRef/AsMut and tuple (1..=12) conversions exist only for the matching length. (b) corpus: 152 accept and 179 "
                    "reject programs generated from templates, each reject one token away from an accepted twin, covering zip/compare across "
                    "lengths, split past the end, pop/remove on empty, every inferred result length and its neighbours, every conversion with a "
                    "wrong K, Send/Sync/Copy/Clone, and for every API that returns a reference derived from a raw pointer an outlives-the-source "
                    "program, a lifetime-widening function and (for &mut) an aliasing program. rustc must accept every accept program and reject "
                    "every reject program with an error of the expected class (length/bound, move, borrow/lifetime)."),
        level_note="Trusted: rustc's type and borrow checker as the observed system; error classes (not single codes) so that a different-but-equivalent diagnostic is not an alarm. Programs not in the corpus are out of reach; the corpus is generated systematically from the list of public signatures.",
        min_cases=1000,
        must_count=["corpus.accept_programs", "corpus.reject_programs"],
        exhaustive={"quick": True, "thorough": True},
        rule="one case = one trait fact (type, bound) or one corpus program; non-trivial = a reject program or any trait fact",
        explanation=("deciding step: the compiler's verdict on generated programs built against the working tree (cargo check --keep-going, per-target "
                     "diagnostics) and the trait solver's answers reflected at run time"),
        assumptions=["corpus families listed in gen/corpus_gen.py", "unflatten over non-divisible lengths is outside the statement (documented domain) and not in the corpus"],
    ),
    "C18": dict(
        engine="constprobe",
        custom=custom.c18_custom,
        runs=lambda tier, seed: [],
        technique="rustc's const evaluator (the Miri engine) as the UB monitor over ~2500 (quick) / ~5300 (thorough) generated const/static items, a second pass under the nightly evaluator with -Zextra-const-ub-checks (intermediate references validated too), plus native re-evaluation of the same const fns and comparison of the results",
        level="other",
        level_text=("A generator instantiates every const fn of the crate (slice/array reinterpretation both ways, the four chunk functions over every "
                    "L in 0..=3N+2 on exactly-sized backing arrays, from_chunks/into_chunks, uninit/assume_init, len, arr!, const_default/DEFAULT, "
                    "the internals builders' const constructors) for N in {0,1,2,3,7,8,16,17} (+32, 33, 100, 256, 1024 in thorough) and element "
                    "types u8, u32, (u8,u16), () in const items. Compiling the crate makes rustc's const evaluator execute each call: out-of-bounds "
                    "or dangling pointers, uninitialised reads and invalid values are hard errors (E0080), reference-valued items are validated "
                    "for extent, and in-item assertions compare with plain indexing on the backing storage. The binary then evaluates the same "
                    "const fns natively through function pointers and compares with the compiler's values."),
        level_note="Trusted: rustc's const evaluator and its validity checks; the generator (gen/constprobe_gen.py). Compile errors that are not const-evaluation errors mean the API moved: inconclusive, not a violation.",
        min_cases=2000,
        must_count=["const_items_evaluated_by_rustc", "reference_valued_items"],
        exhaustive={"quick": True, "thorough": True},
        rule="one case = one generated const/static item (const fn family, element type, N, L); all items of the tier are evaluated by rustc and again natively",
        explanation=("deciding step: the compiler's const evaluator (an undefined-behaviour interpreter) executing generated const items built against "
                     "the working tree, then run-time agreement; 'evaluations' counts const items, each evaluated twice (rustc + native)"),
        assumptions=["N and L from the generator's lists", "element types without drop glue (const fns cannot drop generic values)"],
    ),
    "C17": dict(
        engine="serdeq",
        technique="recording Serializer (call-sequence monitor) + encodings vs tuple/Vec/concatenation references in JSON, bincode and serde_json::Value + scripted Deserializer/SeqAccess grid with ledger-tracked elements (8-byte and zero-sized-with-Drop), zero-sized elements on the serialising side, fixed up-front hints against N = 4097 / 8192; Miri/memcheck",
        level="exploration",
        level_text=("A recording Serializer must see serialize_tuple(N), N x serialize_element in index order, end (never serialize_seq); JSON text must "
                    "equal the element list's, bincode bytes the concatenation of the elements' encodings with no length prefix, and JSON / bincode / "
                    "Value round-trip equal arrays for N in 0..=8, 16, 17, 32, 33, 100 with u8, f64, String and nested elements; wrong-length, "
                    "malformed-surplus, bad-element-at-every-index and truncated inputs must be rejected. A scripted deserializer delivers every "
                    "count 0..=N+2 under five up-front hints (none, exact, too small, too large, truthful) x four running-hint policies x an element "
                    "error at every index: Ok only if the hint allows N, exactly N good elements were delivered; Ok whenever they were; no "
                    "next_element after the end; ledger-tracked elements already read are dropped exactly once. The carved-out source "
                    "(size_hint()==Some(0) while still holding elements) is generated and counted but not judged."),
        level_note="Trusted: serde_json and bincode as reference encoders; the scripted SeqAccess' own log; ledger.",
        runs=c17,
        min_cases=4000,
        must_count=["c17.scripted_cases", "ledger.drops"],
        exhaustive={"quick": True, "thorough": True},
        rule=("one case = (scripted: N, delivered count, up-front hint, running hint, error index) or (format family, N); the scripted grid is "
              "enumerated completely for N in 0..=8 (+16, 17, 33 in thorough); non-trivial = at least one element delivered"),
        explanation="oracle from the script's own parameters and log; out-of-claim cases are reported in monitor_events['c17.out_of_claim_cases']",
        assumptions=["N in 0..=8 for the scripted grid"],
    ),
    "C20": dict(
        also_custom=custom.both(custom.c18_custom, custom.corpus_for("C20")),
        also_families=("arr!", "corpus"),
        engine="arrmac",
        technique="generated macro invocations with logging element expressions: evaluation-order recorder + type-level length reader + contents vs the values returned and vs the native literal; repeat forms count evaluations of x (and Clone calls for an uncloneable single copy); const items evaluated by the compiler; accept probes (const-item operands, expression kinds, inference) compiled by rustc",
        level="exploration",
        level_text=("A generator writes arr![e0, ..., ek] and box_arr![...] invocations for EVERY element count 0..=64 and 100, 128, 255, 256 (with and "
                    "without trailing comma, non-Copy Tok and Copy u32 elements), where each ei logs its index when evaluated: the log must be "
                    "0..k once each in order, the length read from the result's type must be k, the contents the values returned (as for the "
                    "native literal). Both repeat forms (type-level length; literal, arithmetic and braced-const expression lengths) over the "
                    "length lattice (plus 1025..4096 for the type form) must give N copies with x evaluated exactly once, for arr! and box_arr! "
                    "(Copy and Clone-only elements); const and static items built with arr! must equal their native literals."),
        level_note="Trusted: the generator (gen/arrmac_gen.py) emits only forms the macro grammar defines; a parenthesised length is parsed as a type by macro_rules itself and is not generated.",
        runs=c20,
        min_cases=700,
        exhaustive={"quick": True, "thorough": True},
        rule="one case = (macro form, element type, element count or N); every count in the stated list; non-trivial = count > 0",
        explanation="evaluation log, type-level length, contents",
        assumptions=["element counts 0..=64, 100, 128, 255, 256; repeat lengths from the lattice"],
    ),
    "C19": dict(
        also_custom=custom.c18_custom,
        also_families=("const_default",),
        engine="zc",
        technique="per-address visit counter inside the element's Zeroize impl + value read-back; constant default compared element-wise at run time AND for const items evaluated by the compiler AND with Default::default() (incl. defaults that are zero only in their leading bytes); Miri for structurally built arrays",
        level="exploration",
        level_text=("Every N in 0..=64 plus 100, 127, 128, 255, 256, 1000, 1023, 1024 (every even/odd storage shape to depth 10), seeded random prior "
                    "contents, element types u8, u64, [u8;3], NonZeroU32 (zeroizes to 1), nested arrays and a Mark type whose zeroized value, "
                    "constant default and all-zero bytes are pairwise different: after zeroize() every element must equal its zeroized value and "
                    "Mark's Zeroize must have been invoked exactly once at each of the N slot addresses and nowhere else; const_default(), "
                    "ConstDefault::DEFAULT and a const item initialised with it (evaluated by the compiler) must be N copies of T::DEFAULT and "
                    "equal Default::default()."),
        level_note="Trusted: the visit counter in Mark::zeroize; rustc's const evaluator for the const items.",
        runs=c19,
        min_cases=700,
        exhaustive={"quick": True, "thorough": True},
        rule="one case = (zeroize | const_default, element type, N); all listed N; non-trivial = N > 0",
        explanation="value read-back + per-address visit counts; element-wise default comparison at run time and for compiler-evaluated const items",
        assumptions=["N from the list above"],
    ),
    "C14": dict(
        engine="hex",
        technique="reference-model monitor: per-byte {:02x}/{:02X} concatenation truncated to the precision, for every precision on small N and boundary/random precisions on large N, in two feature builds, with the stack poisoned before every call (uninitialised scratch buffers become visible); refusing sinks (capacity-limited and transient: what was accepted must be a prefix, a refusal must surface as Err); arrays of 32767..65536 bytes; ASan/memcheck on the SIMD build (release and debug), Miri on the fallback",
        level="exploration",
        level_text=("N in 0..=17, 31..=33, 255, 256, 1023, 1024, 1025, 2047..2049, 3000, 4096 (all three internal strategies and both thresholds from "
                    "both sides) x six byte patterns (all 256 byte values tiled, 0xFF, 0x0F, 0xF0, two random) x lower/upper case x every precision "
                    "0..=2N+2 for N<=33 and boundary/odd/random precisions (around 2047, 2048, 4095, 4096, 2N) for large N: the output must be exactly "
                    "the first min(p,2N) characters of the per-byte reference. The binary is built without and with faster-hex; both must match the "
                    "reference, hence each other."),
        level_note="Trusted: core's {:02x} for u8 as the reference. Miri can only run the fallback encoder (the crate disables faster-hex under cfg(miri)); ASan/memcheck cover the SIMD build in thorough.",
        runs=c14,
        min_cases=8000,
        exhaustive={"quick": True, "thorough": True},
        rule="one case = (feature build, N, byte pattern, precision or none), both cases checked inside; non-trivial = N > 0",
        explanation="string equality with the reference; first differing character reported",
        assumptions=["precisions above 65535 are rejected by core::fmt itself and are not generated"],
    ),
    "C13": dict(
        also_custom=custom.corpus_for("C13"),
        also_families=("corpus",),
        engine="cmpfmt",
        technique="reference-model monitor: every comparison operator, a recording Hasher, map lookups through Borrow<[T]> and Debug under 26 literal + 70 dynamic flag combinations, against the slice of the same elements; element types include NaN floats, types whose Ord and PartialOrd disagree, one-byte enums/bools, nested arrays",
        level="exploration",
        level_text=("Exhaustive ordered pairs (including the same object on both sides, since NaN makes == non-reflexive) over 3-4 letter alphabets "
                    "for N in 0..=3 (4 in thorough) with u8, i32, f64 {NaN, -0.0, 0.0, 1.0}, String and nested GenericArray<u8,U2> elements, plus seeded "
                    "random pairs sharing long prefixes for N up to 1024: ==, !=, <, <=, >, >=, partial_cmp, cmp, max must equal the slices'; a "
                    "recording Hasher must see byte-for-byte the same call sequence for the array and its slice (and for hash_slice); HashMap and "
                    "BTreeMap keyed by arrays must be searchable by &[T]; Debug output must equal the slice's under every flag combination tried."),
        level_note="Trusted: std's slice comparison/hash/Debug as the reference. No unsafe beyond as_slice (C02), so native runs only in quick.",
        runs=c13,
        min_cases=5000,
        exhaustive={"quick": True, "thorough": True},
        rule="one case = an ordered pair (a, b) or a single array (self-comparison, hash, Debug) or one seeded random bundle; non-trivial = N > 0",
        explanation="every observable of Eq/Ord/Hash/Debug compared with the slice's",
        assumptions=["alphabets of 3-4 values per element type for the exhaustive part"],
    ),
    "C08": dict(
        also_custom=custom.corpus_for("C08"),
        also_families=("corpus",),
        engine="order",
        technique="call-order recorder: closures and element Clone/Default impls log (call number, arguments); compared with the same computation on slices for every receiver/argument form and every mix of droppable / plain / zero-sized / one-byte stateful-Default element types; resize grid (ten plain type pairs x owned/&/&mut/boxed map and owned/boxed zip) with a closure whose result depends on every earlier call",
        level="exploration",
        level_text=("For N in 0..=13, 15..17, 24, 31..33, 63..65, 100, 127..129, 255..257, 1000, 1024 (511..513, 1023 in thorough): generate via the "
                    "owned type, &S, &mut S and Box; map and fold in the four receiver forms; zip in the nine stack forms plus Box x Box; Clone and "
                    "Default (stack and boxed). Recording closures and element impls must see indices / arguments 0..N-1 ascending exactly once and "
                    "result[i] must be the i-th value returned; fold uses a non-commutative accumulator. Element types cover the drop branch (Tok), "
                    "the no-drop branch (u32), a no-drop type with an observable hand-written Clone/Default, and zero-sized logging types."),
        level_note="Trusted: the recording closures in harness/src/bin/order.rs.",
        runs=c08,
        min_cases=3000,
        must_count=["ledger.clones", "ledger.drops"],
        exhaustive={"quick": True, "thorough": True},
        rule="one case = (operation.form, element-type combination, N); non-trivial = N > 0",
        explanation="recorded call sequences vs 0..N-1 and vs the operands' identities; results vs the values the closure returned",
        assumptions=["N from the lattice"],
    ),
    "C10": dict(
        also_custom=custom.both(custom.c18_custom, custom.corpus_for("C10")),
        also_families=("chunks_from_slice", "from_chunks", "ref.chunks_from_slice", "corpus"),
        engine="chunks",
        technique="address/extent monitor on both parts for every slice length L in 0..=4N+3 + identity read-back + write-through with guard elements; Miri for out-of-bounds views; const-evaluator half via generated const items",
        level="exploration",
        level_text=("For N in {0,1,2,3,7,8,16,17,32} every L in 0..=4N+3 (boundary L for 100 and 256; up to 1024 in thorough) and seven element "
                    "flavours (sizes 0,1,3,4,8; padded tuple), shared and mutable forms: chunk count = floor(L/N), remainder length = L mod N, both "
                    "parts start where arithmetic says, sizes add up to the source, identities read through the parts equal the source order, "
                    "writes through the mutable parts show in the source and nowhere else (guard elements), slice_from_chunks is the inverse, "
                    "from_chunks/into_chunks keep address and count, N = 0 gives two empties or panics. Miri re-runs N<=8 (a part reaching past "
                    "the end is an out-of-bounds retag even if never read)."),
        level_note="Trusted: pointer arithmetic in harness/src/bin/chunks.rs, Miri. The const-evaluation half is exercised by the C18 generated const items (same functions, exact-size backing arrays).",
        runs=c10,
        min_cases=2000,
        must_count=["ledger.drops"],
        exhaustive={"quick": True, "thorough": True},
        rule="one case = (function family, flavour, N, L) — all L in 0..=4N+3 for the small N; non-trivial = L > 0",
        explanation="partition arithmetic checked on addresses, counts and byte extents; identities for order; guards for 'nothing beyond the end'",
        assumptions=["N from the lattice {0,1,2,3,7,8,16,17,32,100,256} (+255, 1024 in thorough)"],
    ),
    "C11": dict(
        also_custom=custom.corpus_for("C11"),
        also_families=("corpus",),
        engine="regroup",
        technique="reference-model monitor (row-major index arithmetic on identities) + address/extent checks on by-reference regrouped views + write-through; ledger for the owned transmutes incl. tracked 512-byte elements (arrays above 64 KiB); accept probes for every small (N, M) x form; Miri/ASan",
        level="exploration",
        level_text=("All (N, M) in 0..=6 x 0..=6 (49 flatten shapes, 42 unflatten shapes with N>=1 dividing NM) plus boundary pairs (1x1024, 1024x1, "
                    "16x64, 3x100, ...), owned / & / &mut forms, seven element flavours: flattened[i*N+j] must be inner[i][j] by identity, unflatten "
                    "the exact inverse, by-reference results at the same address with the same byte extent, writes through the regrouped &mut "
                    "visible in the original; the ledger confirms the owned forms neither lose nor duplicate an element."),
        level_note="Trusted: index arithmetic in harness/src/bin/regroup.rs; ledger; Miri (a by-reference transmute to a longer type is UB at the retag).",
        runs=c11,
        min_cases=1500,
        must_count=["ledger.drops", "ledger.zst_drops"],
        exhaustive={"quick": True, "thorough": True},
        rule="one case = (operation form, flavour, N, M); all shapes in the tables; non-trivial = N*M > 0",
        explanation="identity order + address + extent; ledger for ownership through const_transmute",
        assumptions=["unflatten only over evenly divisible lengths (its documented domain)"],
    ),
    "C01": dict(
        engine="layout",
        technique="compiler-computed size/align observers over the full (164 layouts x every N in 0..=1024) cross product and all larger typenum-named lengths; materialised arrays with address/extent checks; drop-glue tiling via the ledger; boxed placement; every regrouping view (chunks, from/into_chunks, flatten/unflatten) over 40 layouts; Miri round trips",
        level="exploration",
        level_text=("size_of/align_of of GenericArray<T,N> (and of its MaybeUninit twin) are compared with N*size_of::<T>() and align_of::<T>() for "
                    "164 element layouts (every byte size 0..=64, every alignment 2..64 x every multiple size, aligned zero-sized types up to 4096, "
                    "padded tuples, packed structs, niches, nested GenericArrays) x EVERY N in 0..=1024, plus every larger length typenum names "
                    "(2^k, 2^k-1, 10^k, up to 2^62) whose total size stays below rustc's 2^61-byte object bound: exhaustive for the stated "
                    "quantifier. On the length lattice each array is materialised inside a frame: slice views must start at the array, have N "
                    "elements, span size_of bytes, every element at base+i*size, neighbours untouched; drop glue of GenericArray<Tok,N> must "
                    "release exactly N identities for every N<=1024; initialised values round-trip through from_array / native-array view / "
                    "into_array (under Miri a view touching padding or leaving the object is an error)."),
        level_note="Trusted: rustc's size_of/align_of (they ARE the layout), the harness' address arithmetic, Miri.",
        runs=c01,
        min_cases=150000,
        must_count=["ledger.drops"],
        exhaustive={"quick": True, "thorough": True},
        rule=("one case = (observer, layout, N): size_align for all 164 x 1025 pairs and the admissible (layout, large N) pairs; materialise and "
              "round trip on the lattice; drop tiling for every N <= 1024; non-trivial = N > 0 with a sized element, or an alignment > 1"),
        explanation="the space named by the quantifier is enumerated completely at compile time (one monomorphisation per case)",
        assumptions=["element layouts with size > 64 or alignment > 4096 are not instantiated", "large lengths only where N*size < 2^61 (rustc rejects larger objects)"],
    ),
    "C02": dict(
        also_custom=custom.corpus_for("C02"),
        also_families=("corpus",),
        engine="views",
        technique="address/extent monitor on every returned reference + write-through/read-back across all views with canaries + outcome matrix for slice reinterpretation; ledger for by-value conversions; Miri/ASan",
        level="exploration",
        level_text=("For every N in the lattice (0..=13, 15..17, 24, 31..33, 63..65, 100, 127..129, 255..257; 511..1024 in thorough) and six element "
                    "flavours: every view (as_slice, Deref, AsRef/AsMut/Borrow to [T] and [T;N], From<&[T;N]>, by-reference iteration) is checked "
                    "for start address, count, size_of_val and order; every mutable view writes at every index and every shared view must read it "
                    "back, with canaries around the storage; from_slice/from_mut_slice/try_*/TryFrom are called with every L in 0..=N+3 (N<=8) "
                    "or N-2..N+2, 2N, 2N+1 and must accept exactly L = N, aliasing the source; by-value [T;N] and tuple (1..=12) conversions keep "
                    "identities in place with the ledger balanced. Miri turns a too-long reinterpreted reference into an error even if never read."),
        level_note="Trusted: pointer arithmetic in harness/src/bin/views.rs; ledger; Miri/ASan.",
        runs=c02,
        min_cases=1500,
        must_count=["ledger.drops"],
        exhaustive={"quick": True, "thorough": True},
        rule=("one case = (check family, flavour, N[, slice length L]); the lattice x L grid is enumerated; non-trivial = N > 0 / L > 0"),
        explanation="address arithmetic + identity read-back; outcome matrix Ok <=> L == N for the six reinterpretation entry points",
        assumptions=["N from the lattice; large N sample the write indices (0, 1, N/3, N/2, N-2, N-1)"],
    ),
    "C15": dict(
        also_custom=custom.corpus_for("C15"),
        also_families=("corpus",),
        engine="heap",
        technique="recording-global-allocator monitor (block identity, release, new-block size) + Vec/slice reference model + ledger; small-stack child processes for multi-MiB boxed constructors; Miri/ASan",
        level="exploration",
        level_text=("Every heap conversion is run for N in {0,1,2,3,8,16,17,100,1024} x source lengths {0, N-1, N, N+1} x Vecs with and without "
                    "spare capacity x five element flavours inside a recording-allocator window: contents and order must match the source, "
                    "Ok exactly when the length is N, rejected sources dropped once (ledger); for the documented O(1) conversions the block "
                    "address must be unchanged, the block not released and no new block >= the payload requested. The boxed constructors build "
                    "8 MiB (16 MiB in thorough) arrays on a 256 KiB-stack thread in debug-build child processes and must finish with the right checksum."),
        level_note="Trusted: the recording allocator (harness/src/alloc.rs), std's System allocator underneath, child-process exit status. Gates on block identity, not on allocator call counts.",
        runs=c15,
        min_cases=800,
        must_count=["o1.same_block_observed", "c15.bigstack_children", "alloc.window_allocs"],
        exhaustive={"quick": True, "thorough": True},
        rule=("one case = (operation incl. source-length delta and spare capacity, flavour, N) or one small-stack child (operation, MiB); "
              "the grid is enumerated completely; non-trivial = N > 0 (a real heap block is involved)"),
        explanation="allocator event log per case audited online; O(1) verdicts from (address before, address after, releases, new block sizes)",
        assumptions=["N from the lattice above; 8/16 MiB for the stack test", "thread stack 256 KiB, debug build (the hostile configuration)"],
    ),
    "C16": dict(
        engine="heap",
        technique="recording-global-allocator monitor with two fault dimensions: panic at every closure/iterator call, and an injected allocation failure at every allocation request (child process per failure); Miri/ASan/LSan",
        level="fault_enumeration",
        level_text=("Every alloc-feature operation x N in {0,1,2,3,8,17} x six element flavours runs in an allocator window audited against: no "
                    "zero-size request, every release names a live block with its original size and alignment, nothing live once all values are "
                    "gone. Then a panic is injected at every closure / Clone / Default / Iterator::next call index (audit repeated after unwinding), "
                    "and for every allocation request index k the operation makes, a child process is run in which request k returns null: it "
                    "must finish or abort through handle_alloc_error ('memory allocation of N bytes failed'); a null dereference, UB-check "
                    "abort or SIGSEGV is a violation."),
        level_note="Trusted: the recording allocator; debug-build UB checks and signal/exit status of children; Miri (zero-size alloc, layout mismatch, leaks are first-class errors there).",
        runs=c16,
        min_cases=2000,
        must_count=["c16.panic_cases", "c16.allocfail_children", "c16.allocfail_std_abort"],
        exhaustive={"quick": True, "thorough": True},
        rule=("one case = (operation, flavour, N, fault) with fault in {none, panic at call k (every k), allocation request k fails (every k)}; "
              "non-trivial = N > 0 or a fault was injected"),
        explanation="allocator log audit per case; child verdicts by exit status + stderr text",
        assumptions=["N in {0,1,2,3,8,17}", "allocation-failure children are not run under Miri (no process spawning there)"],
    ),
    "C07": dict(
        also_custom=custom.corpus_for("C07"),
        also_families=("corpus",),
        engine="collect",
        technique="scripted-source monitor: recording iterators (poll log, hint log) over the grid N x count x hint policy x fused x panic index; oracle from what the script delivered and from what its hint policy answers at the start (whether or not it is asked); ledger for pulled items",
        level="exploration",
        level_text=("For every N in 0..=8 (16, 17, 33 in thorough), every delivered count 0..=N+3, fourteen size-hint policies (exact, absent, loose, "
                    "lying high/low in either bound, and fixed pairs around N), fused and non-fused sources, the four collecting forms and a "
                    "panic at every reachable call index, the recorded poll log decides: Ok only for exactly N items with element i = item i, Ok "
                    "whenever exactly N and the hint is truthful, Err when the hint rules N out, at most N+1 polls, no poll after None, "
                    "from_iter panics with the 'expected N items' message exactly when the fallible form errs; the ledger decides that every "
                    "pulled item is dropped exactly once."),
        level_note="Trusted: ScriptIter's own log (harness/src/script.rs), the ledger. The grid is exhaustive over the script parameters for the listed N.",
        runs=c07,
        min_cases=20000,
        must_count=["polls_cells", "ledger.drops"],
        exhaustive={"quick": True, "thorough": True},
        rule=("one case = (form, flavour, N, delivered count c, hint policy, fused?, panic index); the whole grid is enumerated; "
              "non-trivial = the source delivers at least one item"),
        explanation="oracle is a function of the script's recorded behaviour (polls, hints asked, items yielded), not of the crate's arithmetic",
        assumptions=["N in 0..=8 (plus 16, 17, 33 in the thorough tier)"],
    ),
    "C03": dict(
        engine="history",
        technique="random chained ownership histories (sources with hidden, claimed and bounded size hints; zips against plain and differently-typed arrays; Debug of live objects as observations) against a shadow Vec model + ownership-ledger monitor; Miri/ASan on heap-payload elements",
        level="exploration",
        level_text=("Seeded random histories of 40..200 chained operations (outputs of one are inputs of the next) over a pool of arrays, "
                    "by-value iterators, nested arrays, Vecs, boxed slices and elements handed to the caller; after every step each pooled "
                    "object is compared by element identity with a shadow Vec updated by the Vec-level meaning of the operation, and at the "
                    "end everything is dropped in random order and the ledger must show every element dropped exactly once and never "
                    "observed after its drop. Reach comes from volume and chaining, not enumeration."),
        level_note="Trusted: shadow-model bookkeeping in harness/src/bin/history.rs, the ledger, Miri/ASan. Lengths 0..=8 only (typed universe).",
        runs=c03,
        min_cases=500,
        must_count=["steps", "op.zip", "op.unflatten", "op.iter.nth", "op.from_vec", "op.native_roundtrip", "op.iter.collect_wrong"],
        exhaustive={"quick": False, "thorough": False},
        rule=("one case = one seeded history (flavour, seed, index) of 40..200 random operations drawn from ~50 operation kinds; "
              "non-trivial = at least 10 operations actually executed; distinctness by (flavour, seed, index)"),
        explanation="shadow-model equality after every step + ledger reconciliation at the end; per-operation-kind step counts are in monitor_events",
        assumptions=["array lengths in histories are 0..=8 (the closed universe of the generated typed dispatch)", "panic-free histories only (C04/C05 cover panics)"],
    ),
    "C09": dict(
        also_custom=custom.corpus_for("C09"),
        also_families=("corpus",),
        engine="seqops",
        technique="reference-model monitor (Vec push/insert/pop/remove/split_at/extend/swap_remove) + address/extent checks + ownership ledger, exhaustive for N<=8, element sizes 0..512 bytes incl. odd and tracked wide ones; Miri/ASan for out-of-bounds copies",
        level="exploration",
        level_text=("Every (N, K), (N, M), index (0..=N+1, usize::MAX) for N in 0..=8 and 9 element flavours (sizes 0, 1, 4, 8, 16, 24; "
                    "drop-tracked and plain) is executed and compared with the same operation on a Vec of the elements' identities; by-reference "
                    "split halves are checked by address and extent and written through; out-of-range remove/swap_remove must panic with the "
                    "ledger balanced. Miri re-runs N<=4 so an off-by-one copy that reads past the array is reported even when the value is discarded."),
        level_note="Trusted: Vec as the executable specification; ledger; Miri/ASan. Boundary lengths (255..257, 1000, 1023, 1024) in the thorough tier.",
        runs=c09,
        min_cases=3000,
        must_count=["ledger.drops", "ledger.zst_drops"],
        exhaustive={"quick": True, "thorough": True},
        rule=("one case = (operation, element flavour, N, parameter K / M / index i); exhaustive over N<=8; non-trivial = the arrays involved "
              "hold at least one element"),
        explanation="Vec-model equality by element identity, address arithmetic for by-reference split, ledger for exactly-once on the panic path",
        assumptions=["lengths above 8 are covered by boundary shapes only (thorough tier)"],
    ),
    "C06": dict(
        also_custom=custom.corpus_for("C06"),
        also_families=("corpus",),
        engine="iterq",
        technique="reference-model monitor (VecDeque + [T;N]::into_iter twins) over exhaustive one-step transitions and seeded random sequences; 22 std adaptor chains through by_ref() compared with the same chains over a protocol-only (next/next_back/size_hint) model iterator; ledger for overlap/skip; Debug with up to 4096 elements left under several flag sets; Miri/ASan",
        level="exploration",
        level_text=("Part A executes every operation with every argument (0..=len+2, usize::MAX) from every reachable (front, back) position for "
                    "N in 0..=8 and compares the return value and the successor state with a VecDeque of the same ids and with "
                    "[u64;N]::into_iter(); because successor states are compared, this covers every finite sequence for those N. Part B runs "
                    "seeded random sequences with clone-then-diverge for N up to 1024. The ledger confirms each id is yielded or dropped once."),
        level_note="Trusted: std's VecDeque and array::IntoIter as executable specifications; harness in harness/src/bin/iterq.rs.",
        runs=c06,
        min_cases=5000,
        must_count=["partB.steps", "ledger.clones"],
        exhaustive={"quick": True, "thorough": True},
        rule=("part A: one case = (operation+argument, flavour, N<=8, position (f,b)), all enumerated; part B: one case = one seeded random "
              "sequence of 5..60 operations over up to 4 live iterators (clones diverge); non-trivial = at least one element remaining "
              "at the position (A) / more than 3 operations executed (B)"),
        explanation="return values + successor states vs VecDeque and native array iterator; ownership ledger; Miri on N<=3 (quick) / N<=5 (thorough)",
        assumptions=["lengths above 8 are sampled (part B), not enumerated"],
    ),
    "C04": dict(
        engine="faults",
        technique="fault enumeration (injected panic at every callback index: closures, Clone incl. clone_from, Default, source iterators, builder/consumer positions; outputs of a different type with the same layout; block-boundary indices on long arrays) + ownership-ledger monitor; Miri/ASan/memcheck on heap-payload elements",
        level_text=("Every (operation-form, N, callback index) for N in 0..=6,8 is executed with a panic injected at that index; an "
                    "online ownership ledger over identity-carrying elements decides exactly-once drop, and the injected payload must "
                    "propagate. This is exhaustive over crash points for the small lengths, sampled for large N; Miri, ASan and memcheck "
                    "re-run the enumeration with heap-payload elements so a lost or doubly released element is a leak / double free report."),
        level_note=("Trusted: the ledger and fault injector in harness/src (run under Miri themselves), rustc/Miri/ASan/valgrind. "
                    "Assumes lengths beyond the tables behave like those in them (the code is length-generic)."),
        level="fault_enumeration",
        runs=c04,
        min_cases=2000,
        must_count=["c04.faults_fired"],
        exhaustive={"quick": True, "thorough": True},
        rule=("one case = (operation-form, element flavour, N, fault index k): a panic injected at the k-th call of the "
              "closure / Clone::clone / Default::default / Iterator::next the operation makes (k == calls is the no-fault "
              "control), enumerated exhaustively for every k and every N in the table; non-trivial = the fault actually "
              "fired while at least one tracked element was live (measured at the injection point)"),
        explanation="ownership ledger over identity-carrying elements + injected panic payload must propagate; Miri/ASan/memcheck watch HeapTok runs",
        assumptions=["N bounded by the length tables in faults.rs (exhaustive 0..=6,8; sampled 16,17,33,100 in thorough)",
                     "one fault per case; the harness' own closures drop or keep their arguments as documented in the engine"],
    ),
    "C05": dict(
        engine="faults",
        technique="fault enumeration (destructor bomb on every element x every iterator position x every argument; objects that survive the caught panic are observed and drained afterwards; clone_from/assignment targets; every owned/borrowed/boxed pairing of zip with the owned side dropped inside the closure) + ownership-ledger monitor; Miri/ASan see double free / use after free",
        level_text=("For every operation that drops elements internally, every iterator position, every skip count and every choice of the one "
                    "element whose destructor panics (N<=6 exhaustively), the ledger checks that no element is dropped twice or observed after "
                    "its drop; leaks are waived as the statement allows."),
        level_note=("Trusted: ledger/bomb in harness/src, rustc/Miri/ASan. One destructor panic per case (two would abort by Rust's rules)."),
        level="fault_enumeration",
        runs=c05,
        min_cases=2000,
        must_count=["c05.bombs_fired"],
        exhaustive={"quick": True, "thorough": True},
        rule=("one case = (operation, flavour, N, iterator position (front,back), argument, index of the single element whose "
              "destructor panics), enumerated exhaustively for N<=6; non-trivial = the bomb went off while other tracked "
              "elements were still live; Leak is waived as the statement allows"),
        explanation="ledger R1/R2 (no second drop, no stale read) after exactly one destructor panic; Miri/ASan see double free / UAF on HeapTok",
        assumptions=["the bomb disarms itself before panicking and never fires during unwinding, so Rust's abort-on-double-panic rule is never triggered by the harness"],
    ),
}
