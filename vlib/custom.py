"""Checks whose 'execution under observation' is the compiler itself (C18, C12)."""
import json
import os
import re
import subprocess
import time

from . import driver

ROOT = driver.ROOT
CONSTPROBE = os.path.join(ROOT, "constprobe")
CORPUS = os.path.join(ROOT, "corpus")

CONST_EVAL_MARKS = ("evaluation of constant value failed", "evaluation panicked", "undefined behavior", "it is undefined behavior to use this value",
                    "could not evaluate", "evaluation of `", "dangling", "out-of-bounds", "uninitialized", "index out of bounds", "attempt to ",
                    "constant evaluation is taking a long time", "long_running_const_eval")


def cargo_json(argv, cwd):
    env = driver.base_env()
    p = subprocess.run(argv, cwd=cwd, env=env, stdout=subprocess.PIPE, stderr=subprocess.PIPE)
    msgs = []
    for line in p.stdout.decode("utf-8", "replace").splitlines():
        if not line.startswith("{"):
            continue
        try:
            j = json.loads(line)
        except ValueError:
            continue
        msgs.append(j)
    return p.returncode, msgs, p.stderr.decode("utf-8", "replace")


def item_names():
    """C<k>/R<k> -> human name, per module (quick/full), parsed from the generated table"""
    names = {"quick": {}, "full": {}}
    mod = None
    try:
        for line in open(os.path.join(CONSTPROBE, "src", "items.rs")):
            m = re.match(r"pub mod (\w+)", line)
            if m:
                mod = m.group(1)
            m = re.match(r'\s*\("([^"]+)", (C\d+), ', line)
            if m and mod in names:
                names[mod][m.group(2)] = m.group(1)
            m = re.match(r'\s*\("(ref [^"]+)", (R\d+)', line)
            if m and mod in names:
                names[mod][m.group(2)] = m.group(1)
    except OSError:
        pass
    return names



_ITEM_LINES = None


def _item_at_span(m):
    """name of the const/static item of constprobe/src/items.rs that a diagnostic points into (through macro expansions)"""
    global _ITEM_LINES
    if _ITEM_LINES is None:
        _ITEM_LINES = {}
        try:
            for i, line in enumerate(open(os.path.join(CONSTPROBE, "src", "items.rs")), 1):
                for mm in re.finditer(r"pub (?:const|static|fn) (\w+)", line):
                    _ITEM_LINES.setdefault(i, mm.group(1))
        except OSError:
            pass

    def walk(sp):
        while sp:
            if sp.get("file_name", "").endswith("items.rs") and sp.get("line_start") in _ITEM_LINES:
                return _ITEM_LINES[sp["line_start"]]
            sp = (sp.get("expansion") or {}).get("span")
        return None

    spans = sorted(m.get("spans", []), key=lambda x: not x.get("is_primary"))
    for sp in spans:
        r = walk(sp)
        if r:
            return r
    for ch in m.get("children", []):
        for sp in ch.get("spans", []):
            r = walk(sp)
            if r:
                return r
    return None


def analyse_const_messages(msgs, names, variant):
    compile_errors = []
    """classify rustc's diagnostics on the generated const items"""
    violations, inconclusive = [], []
    n_errors = 0
    for j in msgs:
        if j.get("reason") != "compiler-message":
            continue
        m = j["message"]
        if m.get("level") != "error":
            continue
        if j.get("target", {}).get("name") != "constprobe":
            inconclusive.append("generic-array itself failed to compile: " + m.get("message", "")[:200])
            continue
        n_errors += 1
        code = (m.get("code") or {}).get("code") or ""
        text = m.get("message", "")
        rendered = m.get("rendered", "") or ""
        if text.startswith("aborting due to") or text.startswith("could not compile"):
            continue
        is_const_eval = code in ("E0080", "long_running_const_eval") or any(k in (text + rendered).lower() for k in CONST_EVAL_MARKS)
        if code == "E0015":
            # "cannot call non-const function in constants": the function still exists under this
            # name and signature but is no longer usable in a const context — which is exactly what
            # the const-API property promises (an API that moved gives resolution errors instead)
            summary = re.sub(r"\d+", "#", text)[:120]
            violations.append({"prop": "C18", "sig": f"const-context|not-const:{summary}", "case": "C18 const item calling " + (re.search(r"`([^`]+)`", text) or [None, "?"])[1][:120],
                               "detail": rendered[:1800], "log": [], "variant": variant, "engine": "constprobe", "args": []})
            continue
        if not is_const_eval:
            compile_errors.append((code, text, _item_at_span(m)))
            continue
        # which item?
        ids = re.findall(r"\b([CRF]\d+)\b", rendered)
        modname = "full" if "mod full" in rendered or "::full::" in rendered else "quick"
        item = None
        for i in ids:
            key = i if i[0] != "F" else "R" + i[1:]
            for mn in (modname, "quick", "full"):
                if key in names[mn]:
                    item = names[mn][key]
                    break
            if item:
                break
        item = item or (re.search(r"(pub (?:const|static) \w+[^=]*)=", rendered) or [None, "unidentified const item"])[1].strip()
        fam = item.split(" ")[0] if not item.startswith("ref ") else "ref." + item.split(" ")[1]
        summary = re.sub(r"\d+", "#", text)[:120]
        violations.append({"prop": "C18", "sig": f"{fam}|const-eval:{summary}", "case": f"C18 {item}",
                           "detail": rendered[:1800], "log": [], "variant": variant, "engine": "constprobe", "args": []})
    # Differential reading of ordinary compile errors (type / trait errors, not const-evaluation ones):
    # the family of `arr![x; <computed type-level length>]` items (CL*/CS*/CZ*) sits next to items that
    # use the same macro arm with named lengths (T*, HUGE_REP).  If EVERY compile error lies in items of
    # that family while the named-length items of the same macro compile, the macro did not move -- it
    # stopped working for lengths C18 quantifies over ("for every length"): a violation.  Any other
    # compile error means the API changed under the probe crate: inconclusive, as before.
    if compile_errors:
        fam = [e for e in compile_errors if e[2] and re.fullmatch(r"C[LSZF]\d+", e[2])]
        if len(fam) == len(compile_errors):
            items = sorted({e[2] for e in fam})
            codes = sorted({e[0] or "?" for e in fam})
            violations.append({"prop": "C18", "sig": "arr!|computed-length|AcceptedItemRejected:" + "+".join(codes),
                               "case": "C18 arr![x; <computed type-level length>] in const/static items " + ", ".join(items[:8]),
                               "detail": "; ".join(f"{e[2]}: {e[0]} {e[1][:160]}" for e in fam[:6]) + " -- the same macro arm compiles for named lengths (T*, HUGE_REP)",
                               "log": [], "variant": variant, "engine": "constprobe", "args": []})
        else:
            for code, text, _item in compile_errors[:6]:
                inconclusive.append(f"constprobe no longer compiles against this tree ({code}): {text[:200]}")
    return violations, inconclusive, n_errors


def c18_custom(tier, seed):
    t0 = time.time()
    driver.ensure_links()
    lock = os.path.join(CONSTPROBE, "Cargo.lock")
    if not os.path.exists(lock):
        import shutil
        src = os.path.join(driver.repo_path(), "Cargo.lock")
        if not os.path.exists(src):
            src = os.path.join(driver.HARNESS, "Cargo.lock")
        shutil.copy(src, lock)
    full = tier == "thorough"
    argv = ["cargo", "build", "--offline", "--message-format=json"]
    tdir = os.path.join(CONSTPROBE, "target", "full" if full else "quick")
    argv += ["--target-dir", tdir]
    if full:
        argv += ["--features", "full"]
    rc, msgs, stderr = cargo_json(argv, CONSTPROBE)
    names = item_names()
    violations, inconclusive, n_errors = analyse_const_messages(msgs, names, "rustc-const-eval")
    # second pass: the same items under the nightly evaluator with -Zextra-const-ub-checks, which
    # also validates every intermediate reference (a dangling or misaligned reference that exists
    # only transiently inside a const fn is reported, not just the final value)
    extra_note = None
    if rc == 0 and not violations:
        argv2 = ["cargo", "+nightly", "build", "--offline", "--message-format=json", "--target-dir", os.path.join(CONSTPROBE, "target", "nightly-ub-" + ("full" if full else "quick"))]
        if full:
            argv2 += ["--features", "full"]
        env2 = driver.base_env()
        env2["RUSTFLAGS"] = "-Zextra-const-ub-checks"
        t1 = time.time()
        p2 = subprocess.run(argv2, cwd=CONSTPROBE, env=env2, stdout=subprocess.PIPE, stderr=subprocess.PIPE)
        msgs2 = []
        for line in p2.stdout.decode("utf-8", "replace").splitlines():
            if line.startswith("{"):
                try:
                    msgs2.append(json.loads(line))
                except ValueError:
                    pass
        v2, inc2, _ = analyse_const_messages(msgs2, names, "rustc-nightly(-Zextra-const-ub-checks)")
        violations.extend(v2)
        if inc2 and not v2:
            # the nightly toolchain failing for another reason says nothing about the crate
            extra_note = "nightly extra-const-ub-checks pass did not complete: " + inc2[0][:160]
        extra_secs = round(time.time() - t1, 1)
    else:
        extra_secs = 0
    agg = {}
    build_log = [{"engines": ["constprobe"], "variant": "const-eval(full)" if full else "const-eval(quick)", "secs": round(time.time() - t0, 1), "rc": rc},
                 {"engines": ["constprobe"], "variant": "nightly const-eval with -Zextra-const-ub-checks", "secs": extra_secs, "rc": 0 if extra_note is None else 1, "note": extra_note or ""}]
    if rc == 0:
        exe = os.path.join(tdir, "debug", "constprobe")
        res = driver.execute_raw([exe], CONSTPROBE, 600)
        for v in res.vlines:
            violations.append({"prop": "C18", "sig": v["sig"], "case": v["case"], "detail": v.get("detail", ""), "log": [],
                               "variant": "native-debug", "engine": "constprobe", "args": []})
        if res.summary:
            s = res.summary
            agg["constprobe/rustc-const-eval+native"] = {"cases": s["cases"], "nontrivial": s["nontrivial"], "violations": s["violations"],
                                                          "counters": s["counters"], "ops": {}, "samples": s["samples"][:12], "shards": 1,
                                                          "wall_s": round(res.wall, 1), "notes": []}
        else:
            inconclusive.append(f"constprobe binary died rc={res.rc}: {res.stderr_tail[-300:]}")
    elif not violations and not inconclusive:
        inconclusive.append("constprobe build failed without a classifiable error: " + stderr[-400:])
    return violations, [], inconclusive, build_log, agg


CLASS_CODES = {
    "Lk": {"E0271", "E0277", "E0308", "E0599", "E0282", "E0283", "E0284", "E0107", "E0369", "E0631"},
    "Mv": {"E0382", "E0505", "E0507"},
    "Bw": {"E0499", "E0502", "E0503", "E0505", "E0506", "E0515", "E0521", "E0597", "E0716", "E0596", "E0594", "E0713", "E0310", "E0621"},
}
LIFETIME_TEXT = ("lifetime may not live long enough", "borrowed data escapes", "does not live long enough")


def corpus_for(prop):
    """the corpus programs tagged with `prop` (accept probes of that property's own domain)"""
    def run(tier, seed):
        return c12_corpus(tier, seed, prop=prop)
    return run


def both(f, g):
    """two compiler-observed halves for one property"""
    def run(tier, seed):
        a = f(tier, seed)
        b = g(tier, seed)
        agg = dict(a[4])
        agg.update(b[4])
        return a[0] + b[0], a[1] + b[1], a[2] + b[2], a[3] + b[3], agg
    return run


def c12_corpus(tier, seed, prop="C12"):
    """rustc's verdict on every program of the accept/reject corpus, per target"""
    t0 = time.time()
    driver.ensure_links()
    lock = os.path.join(CORPUS, "Cargo.lock")
    if not os.path.exists(lock):
        import shutil
        src = os.path.join(driver.repo_path(), "Cargo.lock")
        if not os.path.exists(src):
            src = os.path.join(driver.HARNESS, "Cargo.lock")
        shutil.copy(src, lock)
    expect = {k: e for k, e in json.load(open(os.path.join(CORPUS, "expect.json"))).items() if e.get("property", "C12") == prop}
    rc, msgs, stderr = cargo_json(["cargo", "check", "--offline", "--bins", "--keep-going", "--message-format=json"], CORPUS)
    errs = {}
    lib_broken = []
    checked = set()
    for j in msgs:
        if j.get("reason") == "compiler-artifact" and j.get("target", {}).get("kind") == ["bin"]:
            checked.add(j["target"]["name"])
        if j.get("reason") != "compiler-message":
            continue
        m = j["message"]
        if m.get("level") != "error" or m.get("message", "").startswith("aborting due"):
            continue
        t = j.get("target", {})
        if "bin" not in t.get("kind", []):
            lib_broken.append(m.get("message", "")[:200])
            continue
        errs.setdefault(t["name"], []).append(((m.get("code") or {}).get("code"), m.get("message", "")))
    violations, inconclusive = [], []
    if lib_broken:
        inconclusive.append("a dependency of the corpus failed to compile: " + lib_broken[0])
        return [], [], inconclusive, [{"engines": ["corpus"], "variant": "cargo-check", "secs": round(time.time() - t0, 1), "rc": rc}], {}
    n_acc = n_rej = 0
    fam_count = {}
    samples = []
    for name, e in sorted(expect.items()):
        got = errs.get(name, [])
        fam = e["family"]
        fam_count[fam] = fam_count.get(fam, 0) + 1
        if e["expect"] == "accept":
            n_acc += 1
            if got:
                violations.append({"prop": prop, "sig": f"corpus|{fam}|AcceptedProgramRejected", "case": f"{prop} corpus {name}",
                                   "detail": f"a correct program no longer compiles: {got[0][0]} {got[0][1][:300]}", "log": [],
                                   "variant": "rustc", "engine": "corpus", "args": []})
        else:
            n_rej += 1
            if not got:
                violations.append({"prop": "C12", "sig": f"corpus|{fam}|RejectedProgramAccepted", "case": f"C12 corpus {name}",
                                   "detail": f"a program that must be a compile error (class {e['class']}, twin {e.get('twin')}) now compiles", "log": [],
                                   "variant": "rustc", "engine": "corpus", "args": []})
            else:
                codes = {c for c, _ in got}
                in_class = any((c in CLASS_CODES[e["class"]]) or (c is None and e["class"] == "Bw" and any(t in msg for t in LIFETIME_TEXT)) for c, msg in got)
                if not in_class:
                    inconclusive.append(f"corpus program {name} is rejected, but for an unexpected reason {sorted(str(c) for c in codes)} (expected class {e['class']})")
        if len(samples) < 14 and (n_acc + n_rej) % 24 == 1:
            samples.append(f"{name}: expect {e['expect']} ({e['class']}), rustc errors: {[c for c, _ in got][:3]}")
    total = n_acc + n_rej
    if prop != "C12" and violations and len(violations) == n_acc:
        # every probe of this property's domain fails: the API moved, nothing can be said
        inconclusive.append(f"none of the {n_acc} accept probes of {prop} compiles against this tree: " + violations[0]["detail"][:200])
        violations = []
    agg = {("corpus/rustc" if prop == "C12" else f"corpus/rustc({prop} accept probes)"): {"cases": total, "nontrivial": n_rej, "violations": len(violations),
                            "counters": {"corpus.accept_programs": n_acc, "corpus.reject_programs": n_rej, **{f"corpus.family.{k}": v for k, v in fam_count.items()}},
                            "ops": {}, "samples": samples, "shards": 1, "wall_s": round(time.time() - t0, 1), "notes": []}}
    build_log = [{"engines": ["corpus"], "variant": "cargo-check", "secs": round(time.time() - t0, 1), "rc": rc}]
    return violations, [], inconclusive, build_log, agg
