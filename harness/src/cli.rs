//! Common command line of every engine:
//!   --tier quick|thorough  --seed S  --shard i/n  --maxn K  --only SUBSTR
//!   --flavours a,b  --budget N  --part NAME  --trace  key=value ...

use std::collections::BTreeMap;

#[derive(Clone, Debug)]
pub struct Args {
    pub tier: String,
    pub seed: u64,
    pub shard: usize,
    pub shards: usize,
    /// largest length this run instantiates cases for (sanitizer runs use smaller)
    pub maxn: usize,
    pub only: Option<String>,
    pub flavours: Option<Vec<String>>,
    pub budget: Option<u64>,
    pub parts: Option<Vec<String>>,
    pub trace: bool,
    pub kv: BTreeMap<String, String>,
}

impl Args {
    pub fn parse() -> Args {
        let mut a = Args {
            tier: "quick".into(),
            seed: 0,
            shard: 0,
            shards: 1,
            maxn: usize::MAX,
            only: None,
            flavours: None,
            budget: None,
            parts: None,
            trace: std::env::var_os("VKIT_TRACE").is_some(),
            kv: BTreeMap::new(),
        };
        let mut it = std::env::args().skip(1);
        while let Some(x) = it.next() {
            match x.as_str() {
                "--tier" => a.tier = it.next().expect("--tier V"),
                "--seed" => a.seed = it.next().expect("--seed V").parse().expect("seed int"),
                "--shard" => {
                    let v = it.next().expect("--shard i/n");
                    let (i, n) = v.split_once('/').expect("i/n");
                    a.shard = i.parse().unwrap();
                    a.shards = n.parse().unwrap();
                    assert!(a.shard < a.shards);
                }
                "--maxn" => a.maxn = it.next().expect("--maxn V").parse().unwrap(),
                "--only" => a.only = Some(it.next().expect("--only V")),
                "--flavours" => {
                    // split on commas outside parentheses: "(u8,u16)" is one flavour name
                    let v = it.next().expect("--flavours V");
                    let mut out: Vec<String> = Vec::new();
                    let mut cur = String::new();
                    let mut depth = 0i32;
                    for ch in v.chars() {
                        match ch {
                            '(' | '[' => { depth += 1; cur.push(ch) }
                            ')' | ']' => { depth -= 1; cur.push(ch) }
                            ',' if depth == 0 => out.push(std::mem::take(&mut cur)),
                            _ => cur.push(ch),
                        }
                    }
                    out.push(cur);
                    a.flavours = Some(out);
                }
                "--budget" => a.budget = Some(it.next().expect("--budget V").parse().unwrap()),
                "--part" | "--parts" => a.parts = Some(it.next().expect("--part V").split(',').map(|s| s.to_string()).collect()),
                "--trace" => a.trace = true,
                // used by the driver to build a variant (e.g. under Miri) without running anything
                "--noop" => std::process::exit(0),
                other => {
                    if let Some((k, v)) = other.split_once('=') {
                        a.kv.insert(k.to_string(), v.to_string());
                    } else {
                        panic!("unknown argument {other}");
                    }
                }
            }
        }
        a
    }
    pub fn thorough(&self) -> bool {
        self.tier == "thorough"
    }
    pub fn flavour_on(&self, name: &str) -> bool {
        match &self.flavours {
            None => true,
            Some(v) => v.iter().any(|f| f.eq_ignore_ascii_case(name)),
        }
    }
    pub fn part_on(&self, name: &str) -> bool {
        match &self.parts {
            None => true,
            Some(v) => v.iter().any(|f| f == name),
        }
    }
    pub fn get_usize(&self, k: &str, default: usize) -> usize {
        self.kv.get(k).map(|v| v.parse().expect("usize kv")).unwrap_or(default)
    }
}
