//! vkit — shared monitors for the generic-array runtime-monitoring harness.
//!
//! * `ledger`  — ownership ledger (exactly-once drop, no use after drop, no leak)
//! * `tok`     — identity-carrying element flavours that report to the ledger
//! * `fault`   — injected panics (closure / clone / default / destructor / iterator)
//! * `alloc`   — recording global allocator with failure injection
//! * `script`  — scripted source iterators
//! * `rng`, `cli`, `out` — plumbing
#![allow(clippy::new_without_default)]

pub extern crate generic_array;
pub use generic_array::typenum;

pub mod alloc;
pub mod cli;
pub mod fault;
pub mod ledger;
pub mod lens;
pub mod out;
pub mod rng;
pub mod script;
pub mod tok;

pub use cli::Args;
pub use fault::{catch, Caught, Injected};
pub use out::Stats;
pub use rng::Rng;
pub use tok::{Elem, Fat, FatTok, HeapTok, Tok, Tok24, TokX, ZTok};
