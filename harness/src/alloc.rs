//! Recording global allocator with failure injection.
//!
//! An engine opts in with
//! `#[global_allocator] static A: vkit::alloc::Recorder = vkit::alloc::Recorder;`
//! Inside a *window* (per thread) every unmasked request is appended to a
//! fixed-capacity log (no allocation of its own).  The k-th unmasked allocation
//! request inside the window can be made to fail (returns null).
//! `Window::close()` returns the log; `audit()` replays it against the rules:
//!   * no zero-size request,
//!   * every release/realloc names a block that is live, with the layout it was
//!     requested with,
//!   * (checked by the caller once all values are gone) the live set is empty.

use std::alloc::{GlobalAlloc, Layout, System};
use std::cell::Cell;

#[derive(Clone, Copy, Debug, PartialEq, Eq)]
pub enum Op {
    Alloc,
    AllocZeroed,
    Dealloc,
    Realloc,
}

#[derive(Clone, Copy, Debug)]
pub struct Rec {
    pub op: Op,
    pub ptr: usize,     // result for alloc*, argument for dealloc/realloc
    pub size: usize,    // layout size
    pub align: usize,
    pub new_size: usize, // realloc only
    pub new_ptr: usize,  // realloc only
    pub injected_fail: bool,
    /// monitor bookkeeping (ledger, logs): matched by the audit but exempt from the rules
    pub masked: bool,
}

pub const CAP: usize = 8192;

struct Log {
    n: usize,
    overflow: bool,
    recs: [Rec; CAP],
}

const EMPTY: Rec = Rec { op: Op::Alloc, ptr: 0, size: 0, align: 0, new_size: 0, new_ptr: 0, injected_fail: false, masked: false };

thread_local! {
    static WINDOW: Cell<bool> = const { Cell::new(false) };
    static MASK: Cell<u32> = const { Cell::new(0) };
    static FAIL_AT: Cell<i64> = const { Cell::new(-1) };
    static REQS: Cell<u64> = const { Cell::new(0) };
    /// the log lives in a block obtained straight from the System allocator on first use
    /// (a static TLS array of this size would be carved out of every thread's stack)
    static LOG: Cell<*mut Log> = const { Cell::new(core::ptr::null_mut()) };
}

fn log_ptr() -> *mut Log {
    LOG.try_with(|c| {
        let mut p = c.get();
        if p.is_null() {
            unsafe {
                p = System.alloc(Layout::new::<Log>()) as *mut Log;
                if p.is_null() {
                    return p;
                }
                core::ptr::addr_of_mut!((*p).n).write(0);
                core::ptr::addr_of_mut!((*p).overflow).write(false);
                let recs = core::ptr::addr_of_mut!((*p).recs) as *mut Rec;
                let mut i = 0;
                while i < CAP {
                    recs.add(i).write(EMPTY);
                    i += 1;
                }
            }
            c.set(p);
        }
        p
    })
    .unwrap_or(core::ptr::null_mut())
}

pub struct Recorder;

#[inline]
fn recording() -> bool {
    WINDOW.try_with(|w| w.get()).unwrap_or(false)
}
#[inline]
fn masked() -> bool {
    MASK.try_with(|m| m.get() != 0).unwrap_or(true)
}

fn push(r: Rec) {
    let p = log_ptr();
    if p.is_null() {
        return;
    }
    unsafe {
        let l = &mut *p;
        if l.n < CAP {
            l.recs[l.n] = r;
            l.n += 1;
        } else {
            l.overflow = true;
        }
    }
}

/// true if this (unmasked, in-window) allocation request must fail
fn should_fail() -> bool {
    if masked() {
        return false;
    }
    REQS.with(|r| r.set(r.get() + 1));
    FAIL_AT.with(|f| {
        let v = f.get();
        if v < 0 {
            false
        } else if v == 0 {
            f.set(-1);
            true
        } else {
            f.set(v - 1);
            false
        }
    })
}

unsafe impl GlobalAlloc for Recorder {
    unsafe fn alloc(&self, layout: Layout) -> *mut u8 {
        if recording() {
            if should_fail() {
                push(Rec { op: Op::Alloc, ptr: 0, size: layout.size(), align: layout.align(), new_size: 0, new_ptr: 0, injected_fail: true, masked: false });
                return core::ptr::null_mut();
            }
            let p = System.alloc(layout);
            push(Rec { op: Op::Alloc, ptr: p as usize, size: layout.size(), align: layout.align(), new_size: 0, new_ptr: 0, injected_fail: false, masked: masked() });
            p
        } else {
            System.alloc(layout)
        }
    }
    unsafe fn alloc_zeroed(&self, layout: Layout) -> *mut u8 {
        if recording() {
            if should_fail() {
                push(Rec { op: Op::AllocZeroed, ptr: 0, size: layout.size(), align: layout.align(), new_size: 0, new_ptr: 0, injected_fail: true, masked: false });
                return core::ptr::null_mut();
            }
            let p = System.alloc_zeroed(layout);
            push(Rec { op: Op::AllocZeroed, ptr: p as usize, size: layout.size(), align: layout.align(), new_size: 0, new_ptr: 0, injected_fail: false, masked: masked() });
            p
        } else {
            System.alloc_zeroed(layout)
        }
    }
    unsafe fn dealloc(&self, ptr: *mut u8, layout: Layout) {
        if recording() {
            push(Rec { op: Op::Dealloc, ptr: ptr as usize, size: layout.size(), align: layout.align(), new_size: 0, new_ptr: 0, injected_fail: false, masked: masked() });
        }
        System.dealloc(ptr, layout)
    }
    unsafe fn realloc(&self, ptr: *mut u8, layout: Layout, new_size: usize) -> *mut u8 {
        if recording() {
            if should_fail() {
                push(Rec { op: Op::Realloc, ptr: ptr as usize, size: layout.size(), align: layout.align(), new_size, new_ptr: 0, injected_fail: true, masked: false });
                return core::ptr::null_mut();
            }
            let p = System.realloc(ptr, layout, new_size);
            push(Rec { op: Op::Realloc, ptr: ptr as usize, size: layout.size(), align: layout.align(), new_size, new_ptr: p as usize, injected_fail: false, masked: masked() });
            p
        } else {
            System.realloc(ptr, layout, new_size)
        }
    }
}

/// RAII guard: allocator traffic on this thread is not recorded (monitor bookkeeping).
pub struct Mask(());
impl Mask {
    #[inline]
    pub fn new() -> Mask {
        let _ = MASK.try_with(|m| m.set(m.get() + 1));
        Mask(())
    }
}
impl Drop for Mask {
    #[inline]
    fn drop(&mut self) {
        let _ = MASK.try_with(|m| m.set(m.get().saturating_sub(1)));
    }
}

/// An open recording window on this thread.
pub struct Window(());

impl Window {
    /// `fail_at`: index (0-based, among unmasked allocation requests in the window)
    /// of the request that must fail, or None.
    pub fn open(fail_at: Option<usize>) -> Window {
        let p = log_ptr();
        assert!(!p.is_null(), "allocator log");
        unsafe {
            (*p).n = 0;
            (*p).overflow = false;
        }
        REQS.with(|r| r.set(0));
        FAIL_AT.with(|f| f.set(fail_at.map(|k| k as i64).unwrap_or(-1)));
        WINDOW.with(|w| w.set(true));
        Window(())
    }
    /// Stop recording and return a copy of the log (allocated outside the window).
    pub fn close(self) -> Trace {
        WINDOW.with(|w| w.set(false));
        FAIL_AT.with(|f| f.set(-1));
        let (recs, overflow) = unsafe {
            let l = &*log_ptr();
            (l.recs[..l.n].to_vec(), l.overflow)
        };
        core::mem::forget(self);
        Trace { recs, overflow }
    }
}

impl Drop for Window {
    fn drop(&mut self) {
        let _ = WINDOW.try_with(|w| w.set(false));
        let _ = FAIL_AT.try_with(|f| f.set(-1));
    }
}

/// Copy of the log as it stands (after a window was torn down by unwinding rather than closed).
pub fn snapshot() -> Trace {
    let p = log_ptr();
    if p.is_null() {
        return Trace { recs: Vec::new(), overflow: false };
    }
    let (recs, overflow) = unsafe {
        let l = &*p;
        (l.recs[..l.n].to_vec(), l.overflow)
    };
    Trace { recs, overflow }
}

/// Number of records in the current window's log (a position marker).
pub fn log_pos() -> usize {
    let p = log_ptr();
    if p.is_null() {
        0
    } else {
        unsafe { (*p).n }
    }
}

/// Arm failure injection from now on: the k-th unmasked allocation request
/// (alloc / alloc_zeroed / realloc) after this call returns null.
pub fn arm_fail(k: Option<usize>) {
    FAIL_AT.with(|f| f.set(k.map(|k| k as i64).unwrap_or(-1)));
}

/// Is a recording window open (used by engines to assert the allocator is installed)?
pub fn requests_seen() -> u64 {
    REQS.with(|r| r.get())
}

#[derive(Clone, Debug)]
pub struct Trace {
    pub recs: Vec<Rec>,
    pub overflow: bool,
}

#[derive(Clone, Debug, PartialEq, Eq)]
pub enum AllocViolation {
    ZeroSizeRequest { op: &'static str, align: usize },
    ReleaseUnknown { ptr: usize, size: usize, align: usize },
    ReleaseLayoutMismatch { ptr: usize, req_size: usize, req_align: usize, rel_size: usize, rel_align: usize },
    LeakedBlock { size: usize, align: usize },
    LogOverflow,
}

impl AllocViolation {
    pub fn kind(&self) -> &'static str {
        match self {
            AllocViolation::ZeroSizeRequest { .. } => "ZeroSizeRequest",
            AllocViolation::ReleaseUnknown { .. } => "ReleaseUnknown",
            AllocViolation::ReleaseLayoutMismatch { .. } => "ReleaseLayoutMismatch",
            AllocViolation::LeakedBlock { .. } => "LeakedBlock",
            AllocViolation::LogOverflow => "LogOverflow",
        }
    }
}

#[derive(Clone, Debug, Default)]
pub struct Audit {
    pub violations: Vec<AllocViolation>,
    pub allocs: usize,
    pub deallocs: usize,
    pub reallocs: usize,
    pub injected_failures: usize,
    /// blocks still live at the end of the trace: (ptr, size, align)
    pub live: Vec<(usize, usize, usize)>,
    /// largest single request
    pub max_request: usize,
}

impl Trace {
    /// Replay the log against the allocator rules.  `expect_empty`: the caller has
    /// dropped every value before closing the window, so no block may remain.
    pub fn audit(&self, expect_empty: bool) -> Audit {
        let mut a = Audit::default();
        let mut live: Vec<(usize, usize, usize)> = Vec::new();
        let mut masked_live: Vec<usize> = Vec::new();
        if self.overflow {
            a.violations.push(AllocViolation::LogOverflow);
        }
        for r in &self.recs {
            if r.masked {
                // monitor bookkeeping: keep the live set consistent, apply no rule
                match r.op {
                    Op::Alloc | Op::AllocZeroed => {
                        if r.ptr != 0 {
                            masked_live.push(r.ptr);
                        }
                    }
                    Op::Dealloc => {
                        if let Some(i) = masked_live.iter().position(|p| *p == r.ptr) {
                            masked_live.swap_remove(i);
                        } else if let Some(i) = live.iter().position(|b| b.0 == r.ptr) {
                            live.swap_remove(i);
                        }
                    }
                    Op::Realloc => {
                        if let Some(i) = masked_live.iter().position(|p| *p == r.ptr) {
                            if r.new_ptr != 0 {
                                masked_live[i] = r.new_ptr;
                            }
                        } else if r.new_ptr != 0 {
                            masked_live.push(r.new_ptr);
                        }
                    }
                }
                continue;
            }
            match r.op {
                Op::Alloc | Op::AllocZeroed => {
                    a.allocs += 1;
                    a.max_request = a.max_request.max(r.size);
                    if r.size == 0 {
                        a.violations.push(AllocViolation::ZeroSizeRequest {
                            op: if r.op == Op::Alloc { "alloc" } else { "alloc_zeroed" },
                            align: r.align,
                        });
                    }
                    if r.injected_fail {
                        a.injected_failures += 1;
                    } else if r.ptr != 0 {
                        live.push((r.ptr, r.size, r.align));
                    }
                }
                Op::Dealloc => {
                    a.deallocs += 1;
                    match live.iter().position(|b| b.0 == r.ptr) {
                        Some(i) => {
                            let b = live.swap_remove(i);
                            if b.1 != r.size || b.2 != r.align {
                                a.violations.push(AllocViolation::ReleaseLayoutMismatch {
                                    ptr: r.ptr,
                                    req_size: b.1,
                                    req_align: b.2,
                                    rel_size: r.size,
                                    rel_align: r.align,
                                });
                            }
                        }
                        None => {
                            if let Some(i) = masked_live.iter().position(|p| *p == r.ptr) {
                                masked_live.swap_remove(i);
                            } else {
                                a.violations.push(AllocViolation::ReleaseUnknown { ptr: r.ptr, size: r.size, align: r.align })
                            }
                        }
                    }
                }
                Op::Realloc => {
                    a.reallocs += 1;
                    a.max_request = a.max_request.max(r.new_size);
                    if r.new_size == 0 {
                        a.violations.push(AllocViolation::ZeroSizeRequest { op: "realloc", align: r.align });
                    }
                    match live.iter().position(|b| b.0 == r.ptr) {
                        Some(i) => {
                            let b = live[i];
                            if b.1 != r.size || b.2 != r.align {
                                a.violations.push(AllocViolation::ReleaseLayoutMismatch {
                                    ptr: r.ptr,
                                    req_size: b.1,
                                    req_align: b.2,
                                    rel_size: r.size,
                                    rel_align: r.align,
                                });
                            }
                            if r.injected_fail {
                                a.injected_failures += 1;
                            } else if r.new_ptr != 0 {
                                live[i] = (r.new_ptr, r.new_size, r.align);
                            }
                        }
                        None => {
                            if let Some(i) = masked_live.iter().position(|p| *p == r.ptr) {
                                // a monitor block grown by unmasked code: it stays a monitor block
                                if r.new_ptr != 0 {
                                    masked_live[i] = r.new_ptr;
                                }
                            } else {
                                a.violations.push(AllocViolation::ReleaseUnknown { ptr: r.ptr, size: r.size, align: r.align })
                            }
                        }
                    }
                }
            }
        }
        if expect_empty {
            for b in &live {
                a.violations.push(AllocViolation::LeakedBlock { size: b.1, align: b.2 });
            }
        }
        a.live = live;
        a
    }

    /// Was a block of at least `min` bytes requested (alloc or growing realloc)?
    pub fn requested_at_least(&self, min: usize) -> bool {
        self.recs.iter().filter(|r| !r.masked).any(|r| match r.op {
            Op::Alloc | Op::AllocZeroed => r.size >= min,
            Op::Realloc => r.new_size >= min && r.new_size > r.size,
            Op::Dealloc => false,
        })
    }
    pub fn released(&self, ptr: usize) -> bool {
        self.recs.iter().any(|r| match r.op {
            Op::Dealloc => r.ptr == ptr,
            Op::Realloc => r.ptr == ptr && r.new_ptr != ptr && !r.injected_fail,
            _ => false,
        })
    }
    pub fn brief(&self) -> Vec<String> {
        self.recs
            .iter()
            .filter(|r| !r.masked)
            .take(24)
            .map(|r| match r.op {
                Op::Alloc => format!("alloc({},{}){}", r.size, r.align, if r.injected_fail { "=NULL(injected)" } else { "" }),
                Op::AllocZeroed => format!("alloc_zeroed({},{})", r.size, r.align),
                Op::Dealloc => format!("dealloc({},{})", r.size, r.align),
                Op::Realloc => format!("realloc({},{}->{})", r.size, r.align, r.new_size),
            })
            .collect()
    }
}
