//! Ownership ledger: a per-thread, online checker over element lifecycle events.
//!
//! Rules (DESIGN §2.3):
//!  R1  Drop(id) requires id created and not yet dropped  -> DoubleDrop / UnknownDrop
//!  R2  Observe(id) requires id live                      -> UseAfterDrop / UnknownObserve
//!  R3  at a quiescent point the live set is empty         -> Leak   (waivable)
//!  R4  zero-sized tokens: creations == drops              -> ZstImbalance
//!
//! The ledger is updated inside the element's own Drop/Clone, on one thread, so it
//! cannot race with the state it shadows.  Its own allocations are masked from the
//! recording allocator.

use crate::alloc::Mask;
use crate::rng::mix;
use std::cell::RefCell;
use std::collections::HashMap;

#[derive(Clone, Copy, Debug, PartialEq, Eq, Hash, PartialOrd, Ord)]
pub enum Kind {
    DoubleDrop,
    UnknownDrop,
    UseAfterDrop,
    UnknownObserve,
    Leak,
    PadCorrupt,
    ZstOverDrop,
    ZstLeak,
}

impl Kind {
    pub fn name(self) -> &'static str {
        match self {
            Kind::DoubleDrop => "DoubleDrop",
            Kind::UnknownDrop => "UnknownDrop",
            Kind::UseAfterDrop => "UseAfterDrop",
            Kind::UnknownObserve => "UnknownObserve",
            Kind::Leak => "Leak",
            Kind::PadCorrupt => "PadCorrupt",
            Kind::ZstOverDrop => "ZstOverDrop",
            Kind::ZstLeak => "ZstLeak",
        }
    }
}

#[derive(Clone, Debug)]
pub struct Violation {
    pub kind: Kind,
    pub id: u64,
    /// ordinal of the element among those created in this case (0-based), if known
    pub ordinal: Option<u32>,
}

#[derive(Clone, Copy, Default, Debug)]
pub struct Counters {
    pub creates: u64,
    pub clones: u64,
    pub drops: u64,
    pub observes: u64,
    pub zst_creates: u64,
    pub zst_drops: u64,
}

#[derive(Clone, Copy)]
struct Slot {
    live: bool,
    ordinal: u32,
}

#[derive(Clone, Copy, Debug)]
pub enum Ev {
    Create(u32),
    Clone(u32, u32),
    Drop(u32),
    BadDrop(u64),
    Mark(&'static str),
}

pub struct Ledger {
    counter: u64,
    slots: HashMap<u64, Slot>,
    live: u64,
    case_ordinal: u32,
    violations: Vec<Violation>,
    pub total: Counters,
    case: Counters,
    zst_live: i64,
    log: Vec<Ev>,
    log_on: bool,
}

const LOG_CAP: usize = 400;

impl Ledger {
    fn new() -> Ledger {
        Ledger {
            counter: 0,
            slots: HashMap::new(),
            live: 0,
            case_ordinal: 0,
            violations: Vec::new(),
            total: Counters::default(),
            case: Counters::default(),
            zst_live: 0,
            log: Vec::new(),
            log_on: true,
        }
    }
    fn push_log(&mut self, e: Ev) {
        if self.log_on && self.log.len() < LOG_CAP {
            self.log.push(e);
        }
    }
    fn violate(&mut self, kind: Kind, id: u64, ordinal: Option<u32>) {
        if self.violations.len() < 64 {
            self.violations.push(Violation { kind, id, ordinal });
        }
    }
}

thread_local! {
    static LEDGER: RefCell<Ledger> = RefCell::new(Ledger::new());
}

fn with<R>(f: impl FnOnce(&mut Ledger) -> R) -> Option<R> {
    let _m = Mask::new();
    LEDGER.try_with(|l| f(&mut l.borrow_mut())).ok()
}

/// Start a case: forget everything about earlier cases (they have been judged).
pub fn begin_case() {
    with(|l| {
        l.slots.clear();
        l.live = 0;
        l.case_ordinal = 0;
        l.violations.clear();
        l.case = Counters::default();
        l.zst_live = 0;
        l.log.clear();
    });
}

/// Register a new identity; returns its id.  Ids are hashes of a counter so that
/// garbage read from an uninitialised slot does not pass for a live id.
pub fn create() -> u64 {
    with(|l| {
        l.counter += 1;
        let id = mix(l.counter) | 1;
        let ord = l.case_ordinal;
        l.case_ordinal += 1;
        l.slots.insert(id, Slot { live: true, ordinal: ord });
        l.live += 1;
        l.total.creates += 1;
        l.case.creates += 1;
        l.push_log(Ev::Create(ord));
        id
    })
    .unwrap_or(1)
}

pub fn create_clone(src: u64) -> u64 {
    with(|l| {
        l.counter += 1;
        let id = mix(l.counter) | 1;
        let ord = l.case_ordinal;
        l.case_ordinal += 1;
        let src_ord = l.slots.get(&src).map(|s| s.ordinal).unwrap_or(u32::MAX);
        l.slots.insert(id, Slot { live: true, ordinal: ord });
        l.live += 1;
        l.total.creates += 1;
        l.total.clones += 1;
        l.case.creates += 1;
        l.case.clones += 1;
        l.push_log(Ev::Clone(src_ord, ord));
        id
    })
    .unwrap_or(1)
}

pub fn observe(id: u64) {
    with(|l| {
        l.total.observes += 1;
        l.case.observes += 1;
        match l.slots.get(&id).copied() {
            Some(s) if s.live => {}
            Some(s) => l.violate(Kind::UseAfterDrop, id, Some(s.ordinal)),
            None => l.violate(Kind::UnknownObserve, id, None),
        }
    });
}

/// Returns true if this drop was legitimate.
pub fn drop_id(id: u64) -> bool {
    with(|l| {
        l.total.drops += 1;
        l.case.drops += 1;
        match l.slots.get_mut(&id) {
            Some(s) if s.live => {
                s.live = false;
                let o = s.ordinal;
                l.live -= 1;
                l.push_log(Ev::Drop(o));
                true
            }
            Some(s) => {
                let o = s.ordinal;
                l.push_log(Ev::Drop(o));
                l.violate(Kind::DoubleDrop, id, Some(o));
                false
            }
            None => {
                l.push_log(Ev::BadDrop(id));
                l.violate(Kind::UnknownDrop, id, None);
                false
            }
        }
    })
    .unwrap_or(true)
}

pub fn pad_corrupt(id: u64) {
    with(|l| {
        let o = l.slots.get(&id).map(|s| s.ordinal);
        l.violate(Kind::PadCorrupt, id, o)
    });
}

pub fn zst_create() {
    with(|l| {
        l.total.zst_creates += 1;
        l.case.zst_creates += 1;
        l.zst_live += 1;
    });
}

pub fn zst_drop() {
    with(|l| {
        l.total.zst_drops += 1;
        l.case.zst_drops += 1;
        l.zst_live -= 1;
        if l.zst_live < 0 {
            l.violate(Kind::ZstOverDrop, 0, None);
        }
    });
}

pub fn mark(s: &'static str) {
    with(|l| l.push_log(Ev::Mark(s)));
}

pub fn is_live(id: u64) -> bool {
    with(|l| l.slots.get(&id).map(|s| s.live).unwrap_or(false)).unwrap_or(false)
}

pub fn ordinal_of(id: u64) -> Option<u32> {
    with(|l| l.slots.get(&id).map(|s| s.ordinal)).flatten()
}

pub fn live_count() -> u64 {
    with(|l| l.live).unwrap_or(0)
}

pub fn zst_live() -> i64 {
    with(|l| l.zst_live).unwrap_or(0)
}

pub fn case_counters() -> Counters {
    with(|l| l.case).unwrap_or_default()
}

pub fn total_counters() -> Counters {
    with(|l| l.total).unwrap_or_default()
}

/// Close a case at a quiescent point.  `allow_leak` waives R3/R4-leak (C05).
/// Returns every violation recorded since `begin_case`.
pub fn end_case(allow_leak: bool) -> Vec<Violation> {
    with(|l| {
        if !allow_leak {
            if l.live > 0 {
                let mut leaked: Vec<(u32, u64)> =
                    l.slots.iter().filter(|(_, s)| s.live).map(|(id, s)| (s.ordinal, *id)).collect();
                leaked.sort();
                for (o, id) in leaked.into_iter().take(8) {
                    l.violate(Kind::Leak, id, Some(o));
                }
            }
            if l.zst_live > 0 {
                l.violate(Kind::ZstLeak, l.zst_live as u64, None);
            }
        }
        std::mem::take(&mut l.violations)
    })
    .unwrap_or_default()
}

/// Violations recorded so far in this case, without closing it.
pub fn peek_violations() -> usize {
    with(|l| l.violations.len()).unwrap_or(0)
}

/// Human-readable excerpt of this case's event log.
pub fn log_excerpt() -> Vec<String> {
    with(|l| {
        l.log
            .iter()
            .map(|e| match e {
                Ev::Create(o) => format!("Create #{o}"),
                Ev::Clone(s, o) => format!("Clone #{s}->#{o}"),
                Ev::Drop(o) => format!("Drop #{o}"),
                Ev::BadDrop(id) => format!("Drop <unknown id {id:#x}>"),
                Ev::Mark(m) => format!("-- {m}"),
            })
            .collect()
    })
    .unwrap_or_default()
}

pub fn describe(v: &[Violation]) -> String {
    let mut s = String::new();
    for (i, x) in v.iter().enumerate() {
        if i > 0 {
            s.push_str(", ");
        }
        match x.ordinal {
            Some(o) => s.push_str(&format!("{}(#{})", x.kind.name(), o)),
            None => s.push_str(&format!("{}({:#x})", x.kind.name(), x.id)),
        }
    }
    s
}

/// Distinct violation kinds, sorted, joined with '+': the stable part of a signature.
pub fn kinds(v: &[Violation]) -> String {
    let mut k: Vec<&'static str> = v.iter().map(|x| x.kind.name()).collect();
    k.sort();
    k.dedup();
    k.join("+")
}
