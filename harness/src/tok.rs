//! Element flavours.  Tracked flavours carry an identity registered in the ledger;
//! plain flavours exercise the `needs_drop == false` code paths.

use crate::fault;
use crate::ledger;
use crate::rng::mix;
use std::cell::Cell;
use std::fmt;

/// What the generic monitors need from an element type.
pub trait Elem: Sized + 'static {
    const NAME: &'static str;
    /// has a ledger identity (drop / observe are recorded)
    const TRACKED: bool;
    /// identity is carried by value (false for zero-sized types)
    const KEYED: bool;
    /// Create a fresh element (registered in the ledger when tracked).
    fn fresh() -> Self;
    /// Observe the element: returns its key (identity or value).  Checked against
    /// the ledger for tracked flavours.
    fn key(&self) -> u64;
    /// Overwrite with a fresh identity/value through a mutable view.
    fn refresh(&mut self) {
        *self = Self::fresh();
    }
    /// identity without observing (0 when the flavour has none); used to arm a bomb
    fn raw(&self) -> u64 {
        0
    }
}

thread_local! {
    static PLAIN_COUNTER: Cell<u64> = const { Cell::new(0) };
}
fn next_plain() -> u64 {
    PLAIN_COUNTER.with(|c| {
        let v = c.get() + 1;
        c.set(v);
        v
    })
}
pub fn reset_plain_counter() {
    PLAIN_COUNTER.with(|c| c.set(0));
}

// ---------------------------------------------------------------- Tok (8 bytes)

/// Identity + Drop/Clone that log to the ledger.  No heap: a double drop is
/// *recorded*, not a crash.  Also serves as the bomb (fault::arm_bomb) and as the
/// clone-fused element (fault::arm_clone).
#[repr(transparent)]
pub struct Tok {
    id: u64,
}
impl Tok {
    #[inline]
    pub fn new() -> Tok {
        Tok { id: ledger::create() }
    }
    /// identity without observing (for arming a bomb before the operation)
    #[inline]
    pub fn raw_id(&self) -> u64 {
        self.id
    }
}
impl Drop for Tok {
    fn drop(&mut self) {
        ledger::drop_id(self.id);
        fault::on_drop(self.id);
    }
}
impl Clone for Tok {
    fn clone(&self) -> Tok {
        ledger::observe(self.id);
        fault::on_clone();
        Tok { id: ledger::create_clone(self.id) }
    }
}
impl Default for Tok {
    fn default() -> Tok {
        fault::on_default();
        Tok::new()
    }
}
impl fmt::Debug for Tok {
    fn fmt(&self, f: &mut fmt::Formatter<'_>) -> fmt::Result {
        ledger::observe(self.id);
        write!(f, "T{:x}", self.id)
    }
}
impl PartialEq for Tok {
    fn eq(&self, o: &Tok) -> bool {
        ledger::observe(self.id);
        ledger::observe(o.id);
        self.id == o.id
    }
}
impl Elem for Tok {
    const NAME: &'static str = "Tok";
    const TRACKED: bool = true;
    const KEYED: bool = true;
    fn fresh() -> Tok {
        Tok::new()
    }
    fn raw(&self) -> u64 {
        self.id
    }
    fn key(&self) -> u64 {
        ledger::observe(self.id);
        self.id
    }
}


// ---------------------------------------------------------------- TokX (8 bytes, xor-coded)

const XMASK: u64 = 0x5A5A_A5A5_0F0F_F0F0;

/// Same size and alignment as `Tok`, different representation: the stored word is the
/// identity xor a mask.  Code that confuses a `TokX` slot with a `Tok` slot (storage reused
/// across a same-layout type change, a teardown typed with the wrong element type) drops or
/// observes an identity the ledger never issued, and leaks the real one.
#[repr(transparent)]
pub struct TokX {
    x: u64,
}
impl Drop for TokX {
    fn drop(&mut self) {
        ledger::drop_id(self.x ^ XMASK);
        fault::on_drop(self.x ^ XMASK);
    }
}
impl Elem for TokX {
    const NAME: &'static str = "TokX(8B,xor-coded)";
    const TRACKED: bool = true;
    const KEYED: bool = true;
    fn fresh() -> TokX {
        TokX { x: ledger::create() ^ XMASK }
    }
    fn raw(&self) -> u64 {
        self.x ^ XMASK
    }
    fn key(&self) -> u64 {
        ledger::observe(self.x ^ XMASK);
        self.x ^ XMASK
    }
}

// ---------------------------------------------------------------- Tok24 (24 bytes)

/// 24-byte tracked element whose padding words are a function of the id; torn or
/// mis-offset copies are detected at every observation.
pub struct Tok24 {
    id: u64,
    pad: [u64; 2],
}
impl Tok24 {
    pub fn new() -> Tok24 {
        let id = ledger::create();
        Tok24 { id, pad: [mix(id), mix(!id)] }
    }
    fn check(&self) {
        if self.pad != [mix(self.id), mix(!self.id)] {
            ledger::pad_corrupt(self.id);
        }
    }
    pub fn raw_id(&self) -> u64 {
        self.id
    }
}
impl Drop for Tok24 {
    fn drop(&mut self) {
        self.check();
        ledger::drop_id(self.id);
        fault::on_drop(self.id);
    }
}
impl Clone for Tok24 {
    fn clone(&self) -> Tok24 {
        ledger::observe(self.id);
        self.check();
        fault::on_clone();
        let id = ledger::create_clone(self.id);
        Tok24 { id, pad: [mix(id), mix(!id)] }
    }
}
impl Default for Tok24 {
    fn default() -> Tok24 {
        fault::on_default();
        Tok24::new()
    }
}
impl fmt::Debug for Tok24 {
    fn fmt(&self, f: &mut fmt::Formatter<'_>) -> fmt::Result {
        ledger::observe(self.id);
        write!(f, "W{:x}", self.id)
    }
}
impl Elem for Tok24 {
    const NAME: &'static str = "Tok24";
    const TRACKED: bool = true;
    const KEYED: bool = true;
    fn fresh() -> Tok24 {
        Tok24::new()
    }
    fn raw(&self) -> u64 {
        self.id
    }
    fn key(&self) -> u64 {
        ledger::observe(self.id);
        self.check();
        self.id
    }
}

// ---------------------------------------------------------------- ZTok (0 bytes)

/// Zero-sized, with Drop.  Conservation by count.
pub struct ZTok;
impl ZTok {
    pub fn new() -> ZTok {
        ledger::zst_create();
        ZTok
    }
}
impl Drop for ZTok {
    fn drop(&mut self) {
        ledger::zst_drop();
        fault::on_zst_drop();
    }
}
impl Clone for ZTok {
    fn clone(&self) -> ZTok {
        fault::on_clone();
        ZTok::new()
    }
}
impl Default for ZTok {
    fn default() -> ZTok {
        fault::on_default();
        ZTok::new()
    }
}
impl fmt::Debug for ZTok {
    fn fmt(&self, f: &mut fmt::Formatter<'_>) -> fmt::Result {
        f.write_str("Z")
    }
}
impl Elem for ZTok {
    const NAME: &'static str = "ZTok";
    const TRACKED: bool = true;
    const KEYED: bool = false;
    fn fresh() -> ZTok {
        ZTok::new()
    }
    fn key(&self) -> u64 {
        0
    }
}

// ---------------------------------------------------------------- HeapTok (16 bytes)

/// Sanitizer flavour: a double drop is a double free, a stale read is a
/// use-after-free, a leak is a leaked block.  Also reports to the ledger.
pub struct HeapTok {
    id: u64,
    b: Box<u64>,
}
impl HeapTok {
    pub fn new() -> HeapTok {
        let id = ledger::create();
        HeapTok { id, b: Box::new(mix(id)) }
    }
    pub fn raw_id(&self) -> u64 {
        self.id
    }
}
impl Drop for HeapTok {
    fn drop(&mut self) {
        // reads the heap payload: a use-after-free for the sanitizers if stale
        if *self.b != mix(self.id) {
            ledger::pad_corrupt(self.id);
        }
        ledger::drop_id(self.id);
        fault::on_drop(self.id);
    }
}
impl Clone for HeapTok {
    fn clone(&self) -> HeapTok {
        ledger::observe(self.id);
        fault::on_clone();
        let id = ledger::create_clone(self.id);
        HeapTok { id, b: Box::new(mix(id)) }
    }
}
impl Default for HeapTok {
    fn default() -> HeapTok {
        fault::on_default();
        HeapTok::new()
    }
}
impl fmt::Debug for HeapTok {
    fn fmt(&self, f: &mut fmt::Formatter<'_>) -> fmt::Result {
        ledger::observe(self.id);
        write!(f, "H{:x}", self.id)
    }
}
impl Elem for HeapTok {
    const NAME: &'static str = "HeapTok";
    const TRACKED: bool = true;
    const KEYED: bool = true;
    fn fresh() -> HeapTok {
        HeapTok::new()
    }
    fn raw(&self) -> u64 {
        self.id
    }
    fn key(&self) -> u64 {
        ledger::observe(self.id);
        if *self.b != mix(self.id) {
            ledger::pad_corrupt(self.id);
        }
        self.id
    }
}

// ---------------------------------------------------------------- plain flavours

impl Elem for u8 {
    const NAME: &'static str = "u8";
    const TRACKED: bool = false;
    const KEYED: bool = true;
    fn fresh() -> u8 {
        next_plain() as u8
    }
    fn key(&self) -> u64 {
        *self as u64
    }
}
impl Elem for u32 {
    const NAME: &'static str = "u32";
    const TRACKED: bool = false;
    const KEYED: bool = true;
    fn fresh() -> u32 {
        (mix(next_plain()) >> 32) as u32
    }
    fn key(&self) -> u64 {
        *self as u64
    }
}
impl Elem for u64 {
    const NAME: &'static str = "u64";
    const TRACKED: bool = false;
    const KEYED: bool = true;
    fn fresh() -> u64 {
        mix(next_plain())
    }
    fn key(&self) -> u64 {
        *self
    }
}
impl Elem for [u64; 3] {
    const NAME: &'static str = "[u64;3]";
    const TRACKED: bool = false;
    const KEYED: bool = true;
    fn fresh() -> [u64; 3] {
        let v = mix(next_plain());
        [v, mix(v), mix(!v)]
    }
    fn key(&self) -> u64 {
        if self[1] != mix(self[0]) || self[2] != mix(!self[0]) {
            // torn copy: make the key differ from any legitimate one
            return !self[0] ^ 0xDEAD;
        }
        self[0]
    }
}
impl Elem for () {
    const NAME: &'static str = "()";
    const TRACKED: bool = false;
    const KEYED: bool = false;
    fn fresh() {}
    fn key(&self) -> u64 {
        0
    }
}
/// Non-Copy, no heap... String is the plain non-Copy flavour with a heap payload
/// (not ledger-tracked; sanitizers see its buffer).
impl Elem for String {
    const NAME: &'static str = "String";
    const TRACKED: bool = false;
    const KEYED: bool = true;
    fn fresh() -> String {
        format!("s{}", next_plain())
    }
    fn key(&self) -> u64 {
        let mut h = 0xcbf2_9ce4_8422_2325u64;
        for b in self.bytes() {
            h = (h ^ b as u64).wrapping_mul(0x100_0000_01b3);
        }
        h
    }
}

impl Elem for (u8, u16) {
    const NAME: &'static str = "(u8,u16)";
    const TRACKED: bool = false;
    const KEYED: bool = true;
    fn fresh() -> (u8, u16) {
        let v = mix(next_plain());
        (v as u8, (v >> 8) as u16)
    }
    fn key(&self) -> u64 {
        (self.0 as u64) << 16 | self.1 as u64
    }
}
impl Elem for [u8; 3] {
    const NAME: &'static str = "[u8;3]";
    const TRACKED: bool = false;
    const KEYED: bool = true;
    fn fresh() -> [u8; 3] {
        let v = mix(next_plain());
        [v as u8, (v >> 8) as u8, (v >> 16) as u8]
    }
    fn key(&self) -> u64 {
        (self[0] as u64) << 16 | (self[1] as u64) << 8 | self[2] as u64
    }
}

/// 512-byte plain element: arrays of a few of these exceed 1 KiB (size-dependent code paths).
#[derive(Clone)]
pub struct Fat(pub [u64; 64]);
impl Elem for Fat {
    const NAME: &'static str = "Fat(512B)";
    const TRACKED: bool = false;
    const KEYED: bool = true;
    fn fresh() -> Fat {
        let v = mix(next_plain());
        let mut a = [0u64; 64];
        let mut i = 0;
        while i < 64 {
            a[i] = v.wrapping_add(i as u64);
            i += 1;
        }
        Fat(a)
    }
    fn key(&self) -> u64 {
        // torn copies show up as a broken arithmetic progression
        let mut i = 1;
        while i < 64 {
            if self.0[i] != self.0[0].wrapping_add(i as u64) {
                return !self.0[0] ^ 0xFA7;
            }
            i += 1;
        }
        self.0[0]
    }
}

/// Drop-tracked 512-byte element: a modest number of these exceeds size thresholds
/// (1 KiB, 64 KiB) while every element still has an identity.
pub struct FatTok {
    t: Tok,
    pad: [u64; 63],
}
impl Elem for FatTok {
    const NAME: &'static str = "FatTok(512B,tracked)";
    const TRACKED: bool = true;
    const KEYED: bool = true;
    fn fresh() -> FatTok {
        let t = Tok::new();
        let id = t.raw_id();
        FatTok { t, pad: [mix(id); 63] }
    }
    fn raw(&self) -> u64 {
        self.t.raw_id()
    }
    fn key(&self) -> u64 {
        if self.pad[0] != mix(self.t.raw_id()) || self.pad[62] != self.pad[0] {
            ledger::pad_corrupt(self.t.raw_id());
        }
        self.t.key()
    }
}

/// Keys of a slice of elements, in order.
pub fn keys<E: Elem>(xs: &[E]) -> Vec<u64> {
    let _m = crate::alloc::Mask::new();
    xs.iter().map(|e| e.key()).collect()
}
