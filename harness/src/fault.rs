//! Injected faults: panics at a chosen call index of a closure / Clone / Default /
//! Iterator::next, and a destructor bomb.  Exactly one fault is armed per case.

use crate::alloc::Mask;
use std::any::Any;
use std::cell::{Cell, RefCell};
use std::panic::{self, AssertUnwindSafe};

/// Payload of every panic the harness injects.
#[derive(Debug, Clone, Copy, PartialEq, Eq)]
pub struct Injected(pub &'static str, pub usize);

thread_local! {
    static CLONE_FUSE: Cell<i64> = const { Cell::new(-1) };
    static CLONE_CALLS: Cell<u64> = const { Cell::new(0) };
    static DEFAULT_FUSE: Cell<i64> = const { Cell::new(-1) };
    static DEFAULT_CALLS: Cell<u64> = const { Cell::new(0) };
    static BOMB: Cell<u64> = const { Cell::new(0) };
    static BOMB_FIRED: Cell<bool> = const { Cell::new(false) };
    static INJECT_FIRED: Cell<bool> = const { Cell::new(false) };
    static LAST_PANIC: RefCell<String> = const { RefCell::new(String::new()) };
    static LIVE_AT_FAULT: Cell<i64> = const { Cell::new(-1) };
    static CATCH_DEPTH: Cell<u32> = const { Cell::new(0) };
    static ZBOMB: Cell<i64> = const { Cell::new(-1) };
}

/// Arm a bomb for zero-sized tracked elements (they carry no identity): the j-th
/// (0-based) zero-sized drop from now on panics, once.
pub fn arm_zst_bomb(j: usize) {
    ZBOMB.with(|c| c.set(j as i64));
}
/// Called by zero-sized tracked elements at the end of their drop bookkeeping.
pub fn on_zst_drop() {
    let v = ZBOMB.try_with(|c| c.get()).unwrap_or(-1);
    if v < 0 {
        return;
    }
    if v == 0 {
        let _ = ZBOMB.try_with(|c| c.set(-1));
        if !std::thread::panicking() {
            let _ = BOMB_FIRED.try_with(|c| c.set(true));
            snapshot_live();
            panic::panic_any(Injected("zst-drop", 0));
        }
    } else {
        let _ = ZBOMB.try_with(|c| c.set(v - 1));
    }
}

/// Number of tracked elements (identity + zero-sized) that were live when the
/// injected fault fired; -1 if none fired.  Makes "non-trivial" measurable.
pub fn live_at_fault() -> i64 {
    LIVE_AT_FAULT.with(|c| c.get())
}
fn snapshot_live() {
    let n = crate::ledger::live_count() as i64 + crate::ledger::zst_live().max(0);
    let _ = LIVE_AT_FAULT.try_with(|c| c.set(n));
}

/// Install a quiet panic hook: injected panics print nothing; other panics are
/// remembered (message + location) for diagnostics and printed only with VKIT_LOUD.
pub fn install_hook() {
    let loud = std::env::var_os("VKIT_LOUD").is_some();
    panic::set_hook(Box::new(move |info| {
        let _m = Mask::new();
        if info.payload().downcast_ref::<Injected>().is_some() {
            return;
        }
        let msg = if let Some(s) = info.payload().downcast_ref::<&str>() {
            s.to_string()
        } else if let Some(s) = info.payload().downcast_ref::<String>() {
            s.clone()
        } else {
            "<non-string payload>".to_string()
        };
        let loc = info.location().map(|l| format!("{}:{}", l.file(), l.line())).unwrap_or_default();
        let _ = LAST_PANIC.try_with(|p| *p.borrow_mut() = format!("{msg} @ {loc}"));
        let depth = CATCH_DEPTH.try_with(|c| c.get()).unwrap_or(0);
        if loud || depth == 0 {
            // outside any catch(): this is the harness itself dying; never silent
            eprintln!("panic: {msg} @ {loc}");
        }
    }));
}

pub fn last_panic() -> String {
    LAST_PANIC.with(|p| p.borrow().clone())
}

pub fn reset() {
    CLONE_FUSE.with(|c| c.set(-1));
    CLONE_CALLS.with(|c| c.set(0));
    DEFAULT_FUSE.with(|c| c.set(-1));
    DEFAULT_CALLS.with(|c| c.set(0));
    BOMB.with(|c| c.set(0));
    ZBOMB.with(|c| c.set(-1));
    BOMB_FIRED.with(|c| c.set(false));
    INJECT_FIRED.with(|c| c.set(false));
    LIVE_AT_FAULT.with(|c| c.set(-1));
    LAST_PANIC.with(|p| p.borrow_mut().clear());
}

/// Raise the injected panic.
pub fn inject(site: &'static str, k: usize) -> ! {
    INJECT_FIRED.with(|c| c.set(true));
    snapshot_live();
    panic::panic_any(Injected(site, k))
}

pub fn fired() -> bool {
    INJECT_FIRED.with(|c| c.get()) || BOMB_FIRED.with(|c| c.get())
}

/// Arm: the k-th (0-based) `Clone::clone` of a tracked element panics.
pub fn arm_clone(k: usize) {
    CLONE_FUSE.with(|c| c.set(k as i64));
}
pub fn clone_calls() -> u64 {
    CLONE_CALLS.with(|c| c.get())
}
/// Called by tracked elements at the top of `clone`.
pub fn on_clone() {
    let n = CLONE_CALLS.with(|c| {
        let n = c.get();
        c.set(n + 1);
        n
    });
    let f = CLONE_FUSE.with(|c| c.get());
    if f >= 0 && n as i64 == f {
        CLONE_FUSE.with(|c| c.set(-1));
        inject("clone", n as usize);
    }
}

pub fn arm_default(k: usize) {
    DEFAULT_FUSE.with(|c| c.set(k as i64));
}
pub fn default_calls() -> u64 {
    DEFAULT_CALLS.with(|c| c.get())
}
pub fn on_default() {
    let n = DEFAULT_CALLS.with(|c| {
        let n = c.get();
        c.set(n + 1);
        n
    });
    let f = DEFAULT_FUSE.with(|c| c.get());
    if f >= 0 && n as i64 == f {
        DEFAULT_FUSE.with(|c| c.set(-1));
        inject("default", n as usize);
    }
}

/// Arm the destructor bomb: the element with this id panics (once) when dropped.
pub fn arm_bomb(id: u64) {
    BOMB.with(|c| c.set(id));
}
pub fn bomb_fired() -> bool {
    BOMB_FIRED.with(|c| c.get())
}
/// Called by tracked elements at the END of their drop bookkeeping.
/// The bomb disarms itself before panicking and never fires during unwinding
/// (a second panic while unwinding is an abort by Rust's rules and would say
/// nothing about the crate under test).
pub fn on_drop(id: u64) {
    let armed = BOMB.try_with(|c| c.get()).unwrap_or(0);
    if armed != 0 && armed == id {
        let _ = BOMB.try_with(|c| c.set(0));
        if !std::thread::panicking() {
            let _ = BOMB_FIRED.try_with(|c| c.set(true));
            snapshot_live();
            panic::panic_any(Injected("drop", 0));
        }
    }
}

/// A call counter that panics at a chosen index; for closures.
pub struct Fuse {
    pub site: &'static str,
    pub at: Option<usize>,
    pub calls: usize,
}
impl Fuse {
    pub fn new(site: &'static str, at: Option<usize>) -> Fuse {
        Fuse { site, at, calls: 0 }
    }
    /// Call at the top of the closure body (before consuming arguments' identity
    /// is fine either way: arguments are owned by the closure frame and unwind with it).
    #[inline]
    pub fn tick(&mut self) {
        let n = self.calls;
        self.calls += 1;
        if self.at == Some(n) {
            inject(self.site, n);
        }
    }
}

pub enum Caught<R> {
    Returned(R),
    /// the injected panic (site, index) propagated
    Injected(&'static str, usize),
    /// some other panic: message
    Other(String),
}

impl<R> Caught<R> {
    pub fn is_injected(&self) -> bool {
        matches!(self, Caught::Injected(..))
    }
    pub fn returned(self) -> Option<R> {
        match self {
            Caught::Returned(r) => Some(r),
            _ => None,
        }
    }
}

fn payload_msg(p: &Box<dyn Any + Send>) -> String {
    if let Some(s) = p.downcast_ref::<&str>() {
        s.to_string()
    } else if let Some(s) = p.downcast_ref::<String>() {
        s.clone()
    } else {
        "<non-string payload>".into()
    }
}

/// Run `f`, classifying how it ended.
pub fn catch<R>(f: impl FnOnce() -> R) -> Caught<R> {
    CATCH_DEPTH.with(|c| c.set(c.get() + 1));
    let r = panic::catch_unwind(AssertUnwindSafe(f));
    CATCH_DEPTH.with(|c| c.set(c.get().saturating_sub(1)));
    match r {
        Ok(r) => Caught::Returned(r),
        Err(p) => match p.downcast_ref::<Injected>() {
            Some(Injected(s, k)) => Caught::Injected(s, *k),
            None => Caught::Other(payload_msg(&p)),
        },
    }
}
