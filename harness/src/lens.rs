//! Turning a run-time length into a type-level one: `with_len!([list] n, N => body)`
//! expands to a `match` with one arm per listed literal, in which `N` names the
//! typenum type of that length (`typenum::U<v>`).  The set of instantiations is
//! therefore explicit in the source.

#[macro_export]
macro_rules! with_len {
    ([$($v:literal),* $(,)?] $n:expr, $N:ident => $body:expr) => {
        match $n {
            $( $v => { #[allow(dead_code)] type $N = $crate::typenum::U<$v>; $body } )*
            #[allow(unreachable_patterns)]
            other => panic!("length {} not in dispatch table", other),
        }
    };
}

/// 0..=8
#[macro_export]
macro_rules! len_s {
    ($n:expr, $N:ident => $body:expr) => {
        $crate::with_len!([0, 1, 2, 3, 4, 5, 6, 7, 8] $n, $N => $body)
    };
}

/// 0..=9 (results of append/prepend on 0..=8)
#[macro_export]
macro_rules! len_s9 {
    ($n:expr, $N:ident => $body:expr) => {
        $crate::with_len!([0, 1, 2, 3, 4, 5, 6, 7, 8, 9] $n, $N => $body)
    };
}

pub const S: &[usize] = &[0, 1, 2, 3, 4, 5, 6, 7, 8];
pub const M: &[usize] = &[9, 10, 11, 12, 13, 15, 16, 17, 24, 31, 32, 33, 63, 64, 65, 100, 127, 128, 129, 255, 256, 257];
pub const B: &[usize] = &[511, 512, 513, 1000, 1023, 1024];
