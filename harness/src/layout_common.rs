// Shared by `layout` (quick + lattice + large lengths + materialisation) and the
// generated `layoutx<k>` part binaries (the full layouts x 0..=1024 cross product).

#[allow(unused_imports)]
use core::mem::{align_of, size_of, MaybeUninit};
#[allow(unused_imports)]
use generic_array::sequence::GenericSequence;
#[allow(unused_imports)]
use generic_array::{ArrayLength, GenericArray, IntoArrayLength};
#[allow(unused_imports)]
use vkit::typenum::consts::*;
#[allow(unused_imports)]
use vkit::typenum::{Const, U};
#[allow(unused_imports)]
use vkit::{ledger, Args, Elem, Stats, Tok, Tok24, ZTok};

#[allow(dead_code)]
type GA<E, N> = GenericArray<E, N>;

/// An element layout under observation.
pub trait Lay: Sized + 'static {
    const NAME: &'static str;
    /// a fully initialised value determined by `i`
    fn make(i: u8) -> Self;
    /// reads every byte that carries information
    fn probe(&self) -> u64;
}

#[allow(unused_macros)]
macro_rules! h_obs {
    ($st:expr; [$T:ty]; $($N:ident)*) => { $( obs::<$T, $N>($st, <$N as vkit::typenum::Unsigned>::U64); )* };
}

include!("layout_gen.rs");

/// The only generic part: the four numbers the compiler computed for this (T, N).
#[allow(dead_code)]
#[inline(never)]
fn facts<T, N: ArrayLength>() -> [usize; 5] {
    [size_of::<GA<T, N>>(), align_of::<GA<T, N>>(), size_of::<GA<MaybeUninit<T>, N>>(), align_of::<GA<MaybeUninit<T>, N>>(), N::USIZE]
}

/// size_of / align_of of GenericArray<T, N> against N * size_of::<T>() and align_of::<T>()
/// — the definition of `[T; N]`'s layout — for a length given both as a type and a value.
#[allow(dead_code)]
#[inline(always)]
fn obs<T: Lay, N: ArrayLength>(st: &mut Stats, n: u64) {
    judge_obs(st, T::NAME, size_of::<T>(), align_of::<T>(), n, facts::<T, N>);
}

#[allow(dead_code)]
fn judge_obs(st: &mut Stats, name: &'static str, esize: usize, ealign: usize, n: u64, f: fn() -> [usize; 5]) {
    let Some(desc) = st.select(|| format!("C01 size_align {name} N={n}")) else { return };
    let [s, a, us, ua, tn] = f();
    let es = n as u128 * esize as u128;
    if tn as u64 != n {
        st.violation("C01", &format!("size_align|{name}|HarnessBug"), &desc, "type-level and value-level length disagree");
    }
    if s as u128 != es {
        st.violation("C01", &format!("size_align|{name}|SizeMismatch"), &desc, &format!("size_of::<GenericArray<T,N>>() = {s}, N*size_of::<T>() = {es}"));
    }
    if a != ealign {
        st.violation("C01", &format!("size_align|{name}|AlignMismatch"), &desc, &format!("align_of::<GenericArray<T,N>>() = {a}, align_of::<T>() = {ealign}"));
    }
    // the uninit twin must have the same layout (builders rely on it)
    if us as u128 != es || ua != ealign {
        st.violation("C01", &format!("size_align|{name}|UninitTwinMismatch"), &desc, &format!("GenericArray<MaybeUninit<T>,N>: size {us} align {ua}"));
    }
    st.op("size_align");
    st.done(&desc, (n > 0 && esize > 0) || ealign > 1);
}

#[allow(unused_macros)]
macro_rules! obs_lens {
    ($st:expr, $T:ty; $($v:literal)*) => { $( obs::<$T, U<$v>>($st, $v); )* };
}

/// all N in 0..=1024 for one layout (eight chunk macros keep function bodies moderate)
#[allow(dead_code)]
fn obs_all_lens<T: Lay>(st: &mut Stats) {
    fn c0<T: Lay>(st: &mut Stats) { tbl_lens_chunk0!(obs_lens; st, T); }
    fn c1<T: Lay>(st: &mut Stats) { tbl_lens_chunk1!(obs_lens; st, T); }
    fn c2<T: Lay>(st: &mut Stats) { tbl_lens_chunk2!(obs_lens; st, T); }
    fn c3<T: Lay>(st: &mut Stats) { tbl_lens_chunk3!(obs_lens; st, T); }
    fn c4<T: Lay>(st: &mut Stats) { tbl_lens_chunk4!(obs_lens; st, T); }
    fn c5<T: Lay>(st: &mut Stats) { tbl_lens_chunk5!(obs_lens; st, T); }
    fn c6<T: Lay>(st: &mut Stats) { tbl_lens_chunk6!(obs_lens; st, T); }
    fn c7<T: Lay>(st: &mut Stats) { tbl_lens_chunk7!(obs_lens; st, T); }
    c0::<T>(st);
    c1::<T>(st);
    c2::<T>(st);
    c3::<T>(st);
    c4::<T>(st);
    c5::<T>(st);
    c6::<T>(st);
    c7::<T>(st);
}

#[allow(unused_macros)]
macro_rules! each_layout_all_lens {
    ($st:expr; $([$T:ty])*) => { $( obs_all_lens::<$T>($st); )* };
}

#[allow(unused_macros)]
macro_rules! define_full_main {
    () => {
        fn full_main(part: usize) {
            let args = Args::parse();
            let mut st = Stats::new("layoutx", &args);
            st.note(format!("part {part} of 8 of the layouts x 0..=1024 cross product"));
            for_part_layouts!(each_layout_all_lens; &mut st);
            st.finish();
        }
    };
}
