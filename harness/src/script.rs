//! Scripted source iterators: item count, size-hint policy, fused or not, panic at
//! call k; records every `next()` call, calls after `None`, and what was yielded.

use crate::alloc::Mask;
use crate::fault;
use crate::tok::Elem;
use std::cell::RefCell;
use std::marker::PhantomData;
use std::rc::Rc;

#[derive(Clone, Copy, Debug, PartialEq, Eq)]
pub enum Hint {
    /// (remaining, Some(remaining)) — truthful and exact
    Exact,
    /// (0, None)
    Unknown,
    /// (0, Some(usize::MAX))
    ZeroBig,
    /// (remaining-1, Some(remaining+1)) — truthful, loose
    Loose,
    /// lower bound lies high: (remaining+1, None)
    LowerHigh,
    /// upper bound lies low: (0, Some(remaining-1))  (remaining>0), else (0,Some(0))
    UpperLow,
    /// upper bound lies high: (0, Some(remaining+2)) — truthful actually (upper may be loose)
    UpperHigh,
    /// lower lies low: (remaining/2, None) — truthful
    LowerLow,
    /// a fixed pair regardless of what is delivered
    Fixed(usize, Option<usize>),
}

pub const HINTS: &[Hint] =
    &[Hint::Exact, Hint::Unknown, Hint::ZeroBig, Hint::Loose, Hint::LowerHigh, Hint::UpperLow, Hint::UpperHigh, Hint::LowerLow];

impl Hint {
    pub fn eval(self, remaining: usize) -> (usize, Option<usize>) {
        match self {
            Hint::Exact => (remaining, Some(remaining)),
            Hint::Unknown => (0, None),
            Hint::ZeroBig => (0, Some(usize::MAX)),
            Hint::Loose => (remaining.saturating_sub(1), Some(remaining + 1)),
            Hint::LowerHigh => (remaining + 1, None),
            Hint::UpperLow => (0, Some(remaining.saturating_sub(1))),
            Hint::UpperHigh => (0, Some(remaining + 2)),
            Hint::LowerLow => (remaining / 2, None),
            Hint::Fixed(lo, hi) => (lo, hi),
        }
    }
    /// Is this policy truthful about a source that will deliver `remaining` items?
    pub fn truthful(self, remaining: usize) -> bool {
        let (lo, hi) = self.eval(remaining);
        lo <= remaining && hi.map(|h| remaining <= h).unwrap_or(true)
    }
    pub fn name(self) -> String {
        match self {
            Hint::Fixed(lo, hi) => format!("Fixed({lo},{hi:?})"),
            h => format!("{h:?}"),
        }
    }
}

#[derive(Default, Debug, Clone)]
pub struct ScriptLog {
    pub polls: usize,
    pub polls_after_none: usize,
    pub nones: usize,
    pub hints_asked: usize,
    pub first_hint: Option<(usize, Option<usize>)>,
    /// keys of the items handed out, in order
    pub yielded: Vec<u64>,
    pub dropped_with_remaining: usize,
}

pub struct ScriptIter<E: Elem> {
    /// items delivered before the first `None`
    produce: usize,
    /// a non-fused script delivers this many further items if polled after `None`
    extra_after_none: usize,
    hint: Hint,
    panic_at: Option<usize>,
    given: usize,
    said_none: bool,
    pub log: Rc<RefCell<ScriptLog>>,
    _e: PhantomData<E>,
}

impl<E: Elem> ScriptIter<E> {
    pub fn new(produce: usize, hint: Hint, fused: bool, panic_at: Option<usize>) -> (ScriptIter<E>, Rc<RefCell<ScriptLog>>) {
        let _m = Mask::new();
        let log = Rc::new(RefCell::new(ScriptLog::default()));
        (
            ScriptIter {
                produce,
                extra_after_none: if fused { 0 } else { 2 },
                hint,
                panic_at,
                given: 0,
                said_none: false,
                log: log.clone(),
                _e: PhantomData,
            },
            log,
        )
    }
}

impl<E: Elem> Iterator for ScriptIter<E> {
    type Item = E;
    fn next(&mut self) -> Option<E> {
        let call = {
            let _m = Mask::new();
            let mut l = self.log.borrow_mut();
            let c = l.polls;
            l.polls += 1;
            if self.said_none {
                l.polls_after_none += 1;
            }
            c
        };
        if self.panic_at == Some(call) {
            fault::inject("next", call);
        }
        if !self.said_none {
            if self.given < self.produce {
                self.given += 1;
                let e = E::fresh();
                let k = e.key();
                let _m = Mask::new();
                self.log.borrow_mut().yielded.push(k);
                Some(e)
            } else {
                self.said_none = true;
                let _m = Mask::new();
                self.log.borrow_mut().nones += 1;
                None
            }
        } else if self.extra_after_none > 0 {
            // not fused: comes back to life if polled again
            self.extra_after_none -= 1;
            let e = E::fresh();
            let k = e.key();
            let _m = Mask::new();
            self.log.borrow_mut().yielded.push(k);
            Some(e)
        } else {
            let _m = Mask::new();
            self.log.borrow_mut().nones += 1;
            None
        }
    }
    fn size_hint(&self) -> (usize, Option<usize>) {
        let rem = if self.said_none { 0 } else { self.produce - self.given };
        let h = self.hint.eval(rem);
        let _m = Mask::new();
        let mut l = self.log.borrow_mut();
        l.hints_asked += 1;
        if l.first_hint.is_none() {
            l.first_hint = Some(h);
        }
        h
    }
}

/// Adaptor that hides the inner iterator's size hint ((0, None)), so that length
/// pre-checks cannot reject a wrong-length source up front.
pub struct NoHint<I>(pub I);
impl<I: Iterator> Iterator for NoHint<I> {
    type Item = I::Item;
    fn next(&mut self) -> Option<I::Item> {
        self.0.next()
    }
}

/// A source that truthfully carries the `FusedIterator` marker (std's `Fuse<I>` is then a
/// pass-through): wraps a *fused* script.
pub struct MarkedFused<I>(pub I);
impl<I: Iterator> Iterator for MarkedFused<I> {
    type Item = I::Item;
    fn next(&mut self) -> Option<I::Item> {
        self.0.next()
    }
    fn size_hint(&self) -> (usize, Option<usize>) {
        self.0.size_hint()
    }
}
impl<I: Iterator> core::iter::FusedIterator for MarkedFused<I> {}

/// A source that answers `size_hint()` with a fixed claim, whatever it then delivers
/// (safe code may do this: `size_hint` is advisory).
pub struct ClaimHint<I>(pub I, pub (usize, Option<usize>));
impl<I: Iterator> Iterator for ClaimHint<I> {
    type Item = I::Item;
    fn next(&mut self) -> Option<I::Item> {
        self.0.next()
    }
    fn size_hint(&self) -> (usize, Option<usize>) {
        self.1
    }
}
