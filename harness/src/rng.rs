//! xoshiro256** seeded through splitmix64.  Deterministic, no dependencies.

#[inline]
pub fn splitmix(x: &mut u64) -> u64 {
    *x = x.wrapping_add(0x9E37_79B9_7F4A_7C15);
    let mut z = *x;
    z = (z ^ (z >> 30)).wrapping_mul(0xBF58_476D_1CE4_E5B9);
    z = (z ^ (z >> 27)).wrapping_mul(0x94D0_49BB_1331_11EB);
    z ^ (z >> 31)
}

/// Stateless 64-bit mixer (splitmix64 finaliser); used to derive ids and pads.
#[inline]
pub fn mix(v: u64) -> u64 {
    let mut x = v;
    splitmix(&mut x)
}

#[derive(Clone, Debug)]
pub struct Rng {
    s: [u64; 4],
}

impl Rng {
    pub fn new(seed: u64) -> Rng {
        let mut x = seed ^ 0xA076_1D64_78BD_642F;
        let s = [splitmix(&mut x), splitmix(&mut x), splitmix(&mut x), splitmix(&mut x)];
        Rng { s }
    }
    /// Independent stream for (seed, index).
    pub fn for_case(seed: u64, index: u64) -> Rng {
        Rng::new(mix(seed).wrapping_add(mix(index.wrapping_mul(0x9E37_79B9_7F4A_7C15) ^ 0x5851_F42D_4C95_7F2D)))
    }
    #[inline]
    pub fn next_u64(&mut self) -> u64 {
        let r = self.s[1].wrapping_mul(5).rotate_left(7).wrapping_mul(9);
        let t = self.s[1] << 17;
        self.s[2] ^= self.s[0];
        self.s[3] ^= self.s[1];
        self.s[1] ^= self.s[2];
        self.s[0] ^= self.s[3];
        self.s[2] ^= t;
        self.s[3] = self.s[3].rotate_left(45);
        r
    }
    /// Uniform in 0..n (n > 0).
    #[inline]
    pub fn below(&mut self, n: usize) -> usize {
        debug_assert!(n > 0);
        (self.next_u64() % (n as u64)) as usize
    }
    /// Uniform in lo..=hi.
    #[inline]
    pub fn range(&mut self, lo: usize, hi: usize) -> usize {
        lo + self.below(hi - lo + 1)
    }
    #[inline]
    pub fn chance(&mut self, num: usize, den: usize) -> bool {
        self.below(den) < num
    }
    pub fn pick<'a, T>(&mut self, xs: &'a [T]) -> &'a T {
        &xs[self.below(xs.len())]
    }
    pub fn byte(&mut self) -> u8 {
        (self.next_u64() >> 24) as u8
    }
}
