//! chunks — C10 (run-time half): chunk regrouping partitions a slice exactly,
//! without copying.  For N in the lattice and every L in 0..=4N+3: chunk count,
//! remainder length, start addresses, total extent, order, no overlap, nothing
//! beyond the end (guards), slice_from_chunks as the inverse, from_chunks /
//! into_chunks as address- and count-preserving reinterpretations, and N = 0.

use generic_array::GenericArray;
use vkit::typenum::U;
use vkit::{Args, Caught, Elem, Stats, Tok};

type GA<E, N> = GenericArray<E, N>;

fn keys<E: Elem>(s: &[E]) -> Vec<u64> {
    s.iter().map(|e| e.key()).collect()
}

trait ChunkLen {
    fn run<E: Elem>(st: &mut Stats, args: &Args);
}
struct L<const K: usize>;

fn lens_for(n: usize, thorough: bool) -> Vec<usize> {
    let top = 4 * n + 3;
    if n <= 32 || (thorough && n <= 256) {
        (0..=top).collect()
    } else {
        let mut v = vec![0, 1, n - 1, n, n + 1, 2 * n - 1, 2 * n, 2 * n + 1, 3 * n, 4 * n, 4 * n + 1, top];
        v.sort();
        v.dedup();
        v
    }
}

macro_rules! impl_chunklen {
    ($($n:literal),*) => { $(
        impl ChunkLen for L<$n> {
            fn run<E: Elem>(st: &mut Stats, args: &Args) {
                type N = U<$n>;
                const K: usize = $n;
                let n: usize = $n;
                let sz = core::mem::size_of::<E>();
                for l in lens_for(n, args.thorough()) {
                    st.check_case("C10", "chunks_from_slice", E::NAME, || format!("C10 chunks_from_slice {} N={n} L={l}", E::NAME), l > 0, || {
                        let mut buf: Vec<E> = (0..l + 4).map(|_| E::fresh()).collect();
                        let guards = [buf[0].key(), buf[1].key(), buf[l + 2].key(), buf[l + 3].key()];
                        let mut want = keys(&buf[2..2 + l]);
                        let base = buf[2..].as_ptr() as usize;
                        if n == 0 {
                            // empty slice gives two empties, non-empty panics
                            let src: &[E] = &buf[2..2 + l];
                            match vkit::catch(|| GA::<E, N>::chunks_from_slice(src)) {
                                Caught::Returned((c, r)) => {
                                    if l != 0 {
                                        return Err(format!("ZeroLengthAccepted: N = 0 with a slice of {l} elements returned"));
                                    }
                                    if !c.is_empty() || !r.is_empty() {
                                        return Err("ZeroLengthMismatch: N = 0 on an empty slice must give two empty results".into());
                                    }
                                }
                                Caught::Other(_) => {
                                    if l == 0 {
                                        return Err("ZeroLengthRejected: N = 0 on an empty slice panicked".into());
                                    }
                                }
                                Caught::Injected(..) => return Err("HarnessBug: injected".into()),
                            }
                            let srcm: &mut [E] = &mut buf[2..2 + l];
                            match vkit::catch(move || {
                                let (c, r) = GA::<E, N>::chunks_from_slice_mut(srcm);
                                (c.len(), r.len())
                            }) {
                                Caught::Returned((c, r)) => {
                                    if l != 0 || c != 0 || r != 0 {
                                        return Err("ZeroLengthMismatch: mutable form with N = 0".into());
                                    }
                                }
                                Caught::Other(_) => {
                                    if l == 0 {
                                        return Err("ZeroLengthRejected: mutable form, N = 0, empty slice panicked".into());
                                    }
                                }
                                Caught::Injected(..) => return Err("HarnessBug: injected".into()),
                            }
                            return Ok(());
                        }
                        let (q, rm) = (l / n, l % n);
                        {
                            let src: &[E] = &buf[2..2 + l];
                            let (chunks, rem) = GA::<E, N>::chunks_from_slice(src);
                            if chunks.len() != q {
                                return Err(format!("ChunkCount: {} chunks, floor(L/N) = {q}", chunks.len()));
                            }
                            if rem.len() != rm {
                                return Err(format!("RemainderLength: {} elements, L mod N = {rm}", rem.len()));
                            }
                            if chunks.as_ptr() as usize != base {
                                return Err("AddressMismatch: chunks do not start at the source".into());
                            }
                            if rem.as_ptr() as usize != base + q * n * sz {
                                return Err(format!("AddressMismatch: remainder at +{}, expected +{}", (rem.as_ptr() as usize).wrapping_sub(base), q * n * sz));
                            }
                            if core::mem::size_of_val(chunks) + core::mem::size_of_val(rem) != l * sz {
                                return Err("ExtentMismatch: parts do not cover the source exactly".into());
                            }
                            let mut got = Vec::with_capacity(l);
                            for (ci, c) in chunks.iter().enumerate() {
                                if c.as_ptr() as usize != base + ci * n * sz {
                                    return Err(format!("AddressMismatch: chunk {ci} misplaced"));
                                }
                                got.extend(c.iter().map(|e| e.key()));
                            }
                            got.extend(rem.iter().map(|e| e.key()));
                            if E::KEYED && got != want {
                                return Err("OrderMismatch: elements read through the parts differ from the source order".into());
                            }
                            // inverse
                            let flat = GA::<E, N>::slice_from_chunks(chunks);
                            if flat.as_ptr() as usize != base || flat.len() != q * n {
                                return Err(format!("InverseMismatch: slice_from_chunks gives {} elements at +{}", flat.len(), (flat.as_ptr() as usize).wrapping_sub(base)));
                            }
                            // native-array reinterpretation of the chunks
                            let nat: &[[E; K]] = GA::<E, N>::into_chunks(chunks);
                            if nat.as_ptr() as usize != base || nat.len() != q {
                                return Err("ReinterpretMismatch: into_chunks changed address or count".into());
                            }
                            let back: &[GA<E, N>] = GA::<E, N>::from_chunks(nat);
                            if back.as_ptr() as usize != base || back.len() != q {
                                return Err("ReinterpretMismatch: from_chunks changed address or count".into());
                            }
                        }
                        // ---- mutable form: both parts live at once, written through
                        {
                            let srcm: &mut [E] = &mut buf[2..2 + l];
                            let (chunks, rem) = GA::<E, N>::chunks_from_slice_mut(srcm);
                            if chunks.len() != q || rem.len() != rm {
                                return Err(format!("ChunkCount: mutable form gives {} chunks + {} remainder", chunks.len(), rem.len()));
                            }
                            if chunks.as_ptr() as usize != base || rem.as_ptr() as usize != base + q * n * sz {
                                return Err("AddressMismatch: mutable parts misplaced".into());
                            }
                            for (ci, c) in chunks.iter_mut().enumerate() {
                                for j in [0, n - 1] {
                                    let x = E::fresh();
                                    want[ci * n + j] = x.key();
                                    c[j] = x;
                                }
                            }
                            if rm > 0 {
                                for j in [0, rm - 1] {
                                    let x = E::fresh();
                                    want[q * n + j] = x.key();
                                    rem[j] = x;
                                }
                            }
                            let flat = GA::<E, N>::slice_from_chunks_mut(chunks);
                            if flat.len() != q * n {
                                return Err("InverseMismatch: slice_from_chunks_mut length".into());
                            }
                            if q > 0 {
                                let x = E::fresh();
                                want[q * n / 2] = x.key();
                                flat[q * n / 2] = x;
                            }
                        }
                        {
                            let srcm: &mut [E] = &mut buf[2..2 + l];
                            let (chunks, _rem) = GA::<E, N>::chunks_from_slice_mut(srcm);
                            let nat: &mut [[E; K]] = GA::<E, N>::into_chunks_mut(chunks);
                            if nat.as_ptr() as usize != base || nat.len() != q {
                                return Err("ReinterpretMismatch: into_chunks_mut changed address or count".into());
                            }
                            if q > 0 {
                                if let Some(slot) = nat[q - 1].iter_mut().next() {
                                    let x = E::fresh();
                                    want[(q - 1) * n] = x.key();
                                    *slot = x;
                                }
                            }
                            let back: &mut [GA<E, N>] = GA::<E, N>::from_chunks_mut(nat);
                            if back.as_ptr() as usize != base || back.len() != q {
                                return Err("ReinterpretMismatch: from_chunks_mut changed address or count".into());
                            }
                        }
                        if E::KEYED && keys(&buf[2..2 + l]) != want {
                            return Err("WriteThroughMismatch: writes through the mutable parts are not what the source shows".into());
                        }
                        let g2 = [buf[0].key(), buf[1].key(), buf[l + 2].key(), buf[l + 3].key()];
                        if E::KEYED && g2 != guards {
                            return Err("GuardClobbered: an element outside the source slice changed".into());
                        }
                        Ok(())
                    });
                }
                // from_chunks / into_chunks on independent slices of 0..=5 arrays
                for cnt in 0..=5usize {
                    st.check_case("C10", "from_chunks", E::NAME, || format!("C10 from_chunks {} N={n} count={cnt}", E::NAME), cnt > 0 && n > 0, || {
                        let nat: Vec<[E; K]> = (0..cnt).map(|_| core::array::from_fn(|_| E::fresh())).collect();
                        let want: Vec<u64> = nat.iter().flat_map(|a| a.iter().map(|e| e.key())).collect();
                        let base = nat.as_ptr() as usize;
                        let g: &[GA<E, N>] = GA::<E, N>::from_chunks(&nat);
                        if g.as_ptr() as usize != base || g.len() != cnt {
                            return Err("ReinterpretMismatch: from_chunks changed address or count".into());
                        }
                        let got: Vec<u64> = g.iter().flat_map(|a| a.iter().map(|e| e.key())).collect();
                        if E::KEYED && got != want {
                            return Err("OrderMismatch: from_chunks".into());
                        }
                        let flat = GA::<E, N>::slice_from_chunks(g);
                        if flat.len() != cnt * n || (E::KEYED && keys(flat) != want) {
                            return Err("InverseMismatch: slice_from_chunks over from_chunks".into());
                        }
                        Ok(())
                    });
                }
            }
        }
    )* };
}

impl_chunklen!(0, 1, 2, 3, 5, 6, 7, 8, 10, 12, 14, 16, 17, 24, 32, 48, 100, 255, 256, 1024);

macro_rules! run_lens {
    ($st:expr, $args:expr, $E:ty, [$($n:literal),*]) => { $( if $n <= $args.maxn { <L<$n> as ChunkLen>::run::<$E>($st, &$args); } )* };
}

fn all_for<E: Elem>(st: &mut Stats, args: &Args) {
    run_lens!(st, args, E, [0, 1, 2, 3, 5, 6, 7, 8, 10, 12, 14, 16, 17, 24, 32, 48]);
    if args.thorough() || args.kv.contains_key("big") {
        run_lens!(st, args, E, [100, 255, 256, 1024]);
    } else {
        run_lens!(st, args, E, [100, 256]);
    }
}

/// zero-sized elements allow slices longer than isize::MAX elements: the partition
/// arithmetic must still hold there (nothing is dereferenced)
fn huge_zst<N: generic_array::ArrayLength>(st: &mut Stats) {
    let n = N::USIZE;
    static UNITS: [(); usize::MAX] = [(); usize::MAX];
    for l in [usize::MAX, usize::MAX - 1, isize::MAX as usize + 1, isize::MAX as usize, isize::MAX as usize - 1, 1usize << 40] {
        st.check_case("C10", "chunks_from_slice", "()", || format!("C10 chunks_from_slice () N={n} L={l} (huge zero-sized slice)"), true, || {
            let src: &[()] = &UNITS[..l];
            let (c, r) = GA::<(), N>::chunks_from_slice(src);
            if c.len() != l / n || r.len() != l % n {
                return Err(format!("ChunkCount: {} chunks + {} remainder for L = {l}, N = {n}", c.len(), r.len()));
            }
            let flat = GA::<(), N>::slice_from_chunks(c);
            if flat.len() != (l / n) * n {
                return Err("InverseMismatch: slice_from_chunks on a huge zero-sized slice".into());
            }
            Ok(())
        });
    }
}

/// chunk lengths far beyond any slice that exists (N at and around 2^32, 2^40): an ordinary slice
/// holds zero whole chunks and is all remainder, in place; an empty slice gives two empty results
fn huge_n<E: Elem, N: generic_array::ArrayLength>(st: &mut Stats) {
    let n = N::USIZE;
    for l in [0usize, 1, 5, 100, 4099] {
        st.check_case("C10", "chunks_from_slice", E::NAME, || format!("C10 chunks_from_slice hugeN {} N={n} L={l}", E::NAME), l > 0, || {
            let mut src: Vec<E> = (0..l).map(|_| E::fresh()).collect();
            let want = keys(&src);
            let base = src.as_ptr() as usize;
            {
                let (c, r) = GenericArray::<E, N>::chunks_from_slice(&src);
                if !c.is_empty() || r.len() != l {
                    return Err(format!("ChunkCount: {} chunks + {} left from {l} elements with N = {n}", c.len(), r.len()));
                }
                if r.as_ptr() as usize != base || keys(r) != want {
                    return Err("AddressMismatch: the remainder is not the source slice".into());
                }
                if !GenericArray::<E, N>::slice_from_chunks(c).is_empty() {
                    return Err("ChunkCount: slice_from_chunks of no chunks".into());
                }
            }
            let (c, r) = GenericArray::<E, N>::chunks_from_slice_mut(&mut src);
            if !c.is_empty() || r.len() != l || r.as_ptr() as usize != base {
                return Err(format!("ChunkCount: mutable form: {} chunks + {} left from {l} elements with N = {n}", c.len(), r.len()));
            }
            Ok(())
        });
    }
}

fn main() {
    let args = Args::parse();
    let mut st = Stats::new("chunks", &args);
    if args.maxn >= 1024 {
        use generic_array::typenum::{Sum, U1099511627776, U3, U4294967296};
        if args.flavour_on("u8") {
            huge_n::<u8, U4294967296>(&mut st);
            huge_n::<u8, Sum<U4294967296, U3>>(&mut st);
            huge_n::<u8, U1099511627776>(&mut st);
        }
        if args.flavour_on("()") {
            huge_n::<(), U4294967296>(&mut st);
            huge_n::<(), Sum<U4294967296, U3>>(&mut st);
        }
        if args.flavour_on("u32") {
            huge_n::<u32, Sum<U4294967296, U3>>(&mut st);
        }
    }
    if args.flavour_on("()") && args.maxn >= 8 {
        huge_zst::<U<1>>(&mut st);
        huge_zst::<U<2>>(&mut st);
        huge_zst::<U<3>>(&mut st);
        huge_zst::<U<8>>(&mut st);
    }
    if args.flavour_on("u8") {
        all_for::<u8>(&mut st, &args);
    }
    if args.flavour_on("u32") {
        all_for::<u32>(&mut st, &args);
    }
    if args.flavour_on("(u8,u16)") {
        all_for::<(u8, u16)>(&mut st, &args);
    }
    if args.flavour_on("[u8;3]") {
        all_for::<[u8; 3]>(&mut st, &args);
    }
    if args.flavour_on("()") {
        all_for::<()>(&mut st, &args);
    }
    if args.flavour_on("Tok") {
        all_for::<Tok>(&mut st, &args);
    }
    if args.flavour_on("ZTok") {
        all_for::<vkit::ZTok>(&mut st, &args);
    }
    st.finish();
}
