//! order — C08: generate / map / zip / fold / clone / default apply the function
//! once per index, in ascending order, identically for every receiver and argument
//! form.  Closures and element Clone/Default impls record (call number, arguments).

use generic_array::functional::FunctionalSequence;
use generic_array::sequence::GenericSequence;
use generic_array::{ArrayLength, GenericArray};
use std::cell::RefCell;
use vkit::typenum::U;
use vkit::{Args, Elem, Stats, Tok, ZTok};

type GA<E, N> = GenericArray<E, N>;

thread_local! {
    static CALLS: RefCell<Vec<u64>> = const { RefCell::new(Vec::new()) };
}
fn log_reset() {
    CALLS.with(|c| c.borrow_mut().clear());
}
fn log_push(v: u64) {
    CALLS.with(|c| c.borrow_mut().push(v));
}
fn log_take() -> Vec<u64> {
    CALLS.with(|c| std::mem::take(&mut *c.borrow_mut()))
}

/// No drop glue, but a hand-written, observable Clone and Default: selects the
/// `needs_drop == false` code paths while keeping calls visible.
#[derive(Debug, PartialEq)]
struct Obs {
    v: u32,
    generation: u32,
}
impl Clone for Obs {
    fn clone(&self) -> Obs {
        log_push(self.v as u64);
        Obs { v: self.v, generation: self.generation + 1 }
    }
}
impl Default for Obs {
    fn default() -> Obs {
        let n = CALLS.with(|c| c.borrow().len()) as u32;
        log_push(n as u64);
        Obs { v: n, generation: 0 }
    }
}
impl Elem for Obs {
    const NAME: &'static str = "Obs(no-drop,logging Clone/Default)";
    const TRACKED: bool = false;
    const KEYED: bool = true;
    fn fresh() -> Obs {
        Obs { v: u32::fresh(), generation: 0 }
    }
    fn key(&self) -> u64 {
        (self.v as u64) << 8 | self.generation as u64
    }
}

/// One byte, no drop glue, stateful Default and logging Clone: byte-sized elements are where
/// memset-style fast paths go, and a fill with one value is not N calls.
#[derive(Debug, PartialEq)]
struct Obs1(u8);
impl Clone for Obs1 {
    fn clone(&self) -> Obs1 {
        log_push(self.0 as u64);
        Obs1(self.0)
    }
}
impl Default for Obs1 {
    fn default() -> Obs1 {
        let n = CALLS.with(|c| c.borrow().len());
        log_push(n as u64);
        Obs1(n as u8)
    }
}
impl Elem for Obs1 {
    const NAME: &'static str = "Obs1(1 byte,no-drop,stateful Default)";
    const TRACKED: bool = false;
    const KEYED: bool = true;
    fn fresh() -> Obs1 {
        Obs1(u32::fresh() as u8)
    }
    fn key(&self) -> u64 {
        self.0 as u64
    }
}

/// Zero-sized with a counting Default / Clone (ZST paths skip allocations, not calls).
#[derive(Debug)]
struct ZObs;
impl Clone for ZObs {
    fn clone(&self) -> ZObs {
        log_push(0);
        ZObs
    }
}
impl Default for ZObs {
    fn default() -> ZObs {
        let n = CALLS.with(|c| c.borrow().len()) as u64;
        log_push(n);
        ZObs
    }
}
impl Elem for ZObs {
    const NAME: &'static str = "ZObs(zero-sized,logging)";
    const TRACKED: bool = false;
    const KEYED: bool = false;
    fn fresh() -> ZObs {
        ZObs
    }
    fn key(&self) -> u64 {
        0
    }
}

/// Drop-tracked element whose Default carries its call number.
struct DTok {
    t: Tok,
    call: u64,
}
impl Default for DTok {
    fn default() -> DTok {
        let n = CALLS.with(|c| c.borrow().len()) as u64;
        log_push(n);
        DTok { t: Tok::new(), call: n }
    }
}
impl Clone for DTok {
    fn clone(&self) -> DTok {
        log_push(self.t.raw_id());
        DTok { t: self.t.clone(), call: self.call }
    }
}
impl Elem for DTok {
    const NAME: &'static str = "DTok(drop-tracked,logging)";
    const TRACKED: bool = true;
    const KEYED: bool = true;
    fn fresh() -> DTok {
        DTok { t: Tok::new(), call: u64::MAX }
    }
    fn key(&self) -> u64 {
        self.t.key()
    }
}

fn mk<E: Elem, N: ArrayLength>() -> (GA<E, N>, Vec<u64>) {
    let a = GA::<E, N>::generate(|_| E::fresh());
    let k = a.iter().map(|e| e.key()).collect();
    (a, k)
}
fn keys<E: Elem>(s: &[E]) -> Vec<u64> {
    s.iter().map(|e| e.key()).collect()
}

fn expect_seq(what: &str, got: &[u64], want: &[u64], keyed: bool) -> Result<(), String> {
    if got.len() != want.len() {
        return Err(format!("CallCount: {what}: {} calls/elements, expected {}", got.len(), want.len()));
    }
    if keyed && got != want {
        let i = got.iter().zip(want).position(|(a, b)| a != b).unwrap();
        return Err(format!("OrderMismatch: {what}: position {i} has {:x}, expected {:x}", got[i], want[i]));
    }
    Ok(())
}

// ------------------------------------------------------------------ generate

fn t_generate<E: Elem, N: ArrayLength>(st: &mut Stats) {
    let n = N::USIZE;
    let idx: Vec<u64> = (0..n as u64).collect();
    macro_rules! form {
        ($name:literal, $call:expr) => {
            st.check_case("C08", concat!("generate.", $name), E::NAME, || format!("C08 generate.{} {} N={n}", $name, E::NAME), n > 0, || {
                let mut calls = Vec::new();
                let mut made = Vec::new();
                let out = $call(&mut |i: usize| {
                    calls.push(i as u64);
                    let e = E::fresh();
                    made.push(e.key());
                    e
                });
                expect_seq("generate call indices", &calls, &idx, true)?;
                expect_seq("generate result[i] = f(i)", &out, &made, E::KEYED)
            });
        };
    }
    form!("owned", |f: &mut dyn FnMut(usize) -> E| keys(&GA::<E, N>::generate(f)));
    form!("ref", |f: &mut dyn FnMut(usize) -> E| keys(&<&GA<E, N> as GenericSequence<E>>::generate(f)));
    form!("mut", |f: &mut dyn FnMut(usize) -> E| keys(&<&mut GA<E, N> as GenericSequence<E>>::generate(f)));
    form!("box", |f: &mut dyn FnMut(usize) -> E| keys(&<Box<GA<E, N>> as GenericSequence<E>>::generate(f)[..]));
}

// ------------------------------------------------------------------ map / fold

fn t_map_fold<E: Elem, U2: Elem, N: ArrayLength>(st: &mut Stats) {
    let n = N::USIZE;
    let fl = format!("{}>{}", E::NAME, U2::NAME);
    macro_rules! mapform {
        ($name:literal, |$a:ident, $f:ident| $call:expr) => {
            st.check_case("C08", concat!("map.", $name), &fl, || format!("C08 map.{} {fl} N={n}", $name), n > 0, || {
                #[allow(unused_mut)]
                let (mut $a, want) = mk::<E, N>();
                let mut seen = Vec::new();
                let mut made = Vec::new();
                let out: Vec<u64> = {
                    let mut $f = |k: u64| {
                        seen.push(k);
                        let e = U2::fresh();
                        made.push(e.key());
                        e
                    };
                    $call
                };
                expect_seq("map arguments a[i] in order", &seen, &want, E::KEYED)?;
                expect_seq("map result[i] = f(a[i])", &out, &made, U2::KEYED)
            });
        };
    }
    mapform!("owned", |a, f| keys(&a.map(|x| f(x.key()))));
    mapform!("ref", |a, f| keys(&(&a).map(|x| f(x.key()))));
    mapform!("mut", |a, f| keys(&(&mut a).map(|x| f(x.key()))));
    mapform!("box", |a, f| keys(&Box::new(a).map(|x| f(x.key()))[..]));

    macro_rules! foldform {
        ($name:literal, |$a:ident, $f:ident| $call:expr) => {
            st.check_case("C08", concat!("fold.", $name), E::NAME, || format!("C08 fold.{} {} N={n}", $name, E::NAME), n > 0, || {
                #[allow(unused_mut)]
                let (mut $a, want) = mk::<E, N>();
                let mut seen = Vec::new();
                // non-commutative accumulator: order is visible in the value too
                let got: u64 = {
                    let mut $f = |acc: u64, k: u64| {
                        seen.push(k);
                        acc.wrapping_mul(31).wrapping_add(k ^ 0x55)
                    };
                    $call
                };
                expect_seq("fold arguments in order", &seen, &want, E::KEYED)?;
                let model = if E::KEYED { want.iter().fold(17u64, |acc, k| acc.wrapping_mul(31).wrapping_add(k ^ 0x55)) } else { (0..n).fold(17u64, |acc, _| acc.wrapping_mul(31).wrapping_add(0x55)) };
                if got != model {
                    return Err(format!("FoldValue: left fold gives {got:x}, reference {model:x}"));
                }
                Ok(())
            });
        };
    }
    foldform!("owned", |a, f| a.fold(17u64, |acc, x| f(acc, x.key())));
    foldform!("ref", |a, f| (&a).fold(17u64, |acc, x| f(acc, x.key())));
    foldform!("mut", |a, f| (&mut a).fold(17u64, |acc, x| f(acc, x.key())));
    foldform!("box", |a, f| Box::new(a).fold(17u64, |acc, x| f(acc, x.key())));
}

// ------------------------------------------------------------------ zip

macro_rules! zip_forms {
    ($( $label:literal, |$a:ident, $b:ident| $lexpr:expr, $rexpr:expr ; )*) => {
        fn t_zip<L: Elem, R: Elem, U2: Elem, N: ArrayLength>(st: &mut Stats) {
            let n = N::USIZE;
            let fl = format!("{}x{}>{}", L::NAME, R::NAME, U2::NAME);
            $(
                st.check_case("C08", concat!("zip.", $label), &fl, || format!("C08 zip.{} {fl} N={n}", $label), n > 0, || {
                    #[allow(unused_mut)]
                    let (mut $a, wl) = mk::<L, N>();
                    #[allow(unused_mut)]
                    let (mut $b, wr) = mk::<R, N>();
                    let mut sl = Vec::new();
                    let mut sr = Vec::new();
                    let mut made = Vec::new();
                    let out: GA<U2, N> = ($lexpr).zip($rexpr, |l, r| {
                        sl.push(l.key());
                        sr.push(r.key());
                        let e = U2::fresh();
                        made.push(e.key());
                        e
                    });
                    expect_seq("zip left arguments a[i]", &sl, &wl, L::KEYED)?;
                    expect_seq("zip right arguments b[i]", &sr, &wr, R::KEYED)?;
                    expect_seq("zip result[i] = f(a[i], b[i])", &keys(&out), &made, U2::KEYED)
                });
            )*
            st.check_case("C08", "zip.box_box", &fl, || format!("C08 zip.box_box {fl} N={n}"), n > 0, || {
                let (a, wl) = mk::<L, N>();
                let (b, wr) = mk::<R, N>();
                let mut sl = Vec::new();
                let mut sr = Vec::new();
                let mut made = Vec::new();
                let out: Box<GA<U2, N>> = Box::new(a).zip(Box::new(b), |l, r| {
                    sl.push(l.key());
                    sr.push(r.key());
                    let e = U2::fresh();
                    made.push(e.key());
                    e
                });
                expect_seq("zip left arguments a[i]", &sl, &wl, L::KEYED)?;
                expect_seq("zip right arguments b[i]", &sr, &wr, R::KEYED)?;
                expect_seq("zip result[i] = f(a[i], b[i])", &keys(&out[..]), &made, U2::KEYED)
            });
        }
    };
}

zip_forms! {
    "own_own", |a, b| a, b;
    "own_ref", |a, b| a, &b;
    "own_mut", |a, b| a, &mut b;
    "ref_own", |a, b| &a, b;
    "ref_ref", |a, b| &a, &b;
    "ref_mut", |a, b| &a, &mut b;
    "mut_own", |a, b| &mut a, b;
    "mut_ref", |a, b| &mut a, &b;
    "mut_mut", |a, b| &mut a, &mut b;
}

// ------------------------------------------------------------------ Clone / Default

fn t_clone_default<E: Elem + Clone + Default, N: ArrayLength>(st: &mut Stats, clone_logs_key: fn(&E) -> u64) {
    let n = N::USIZE;
    st.check_case("C08", "clone", E::NAME, || format!("C08 clone {} N={n}", E::NAME), n > 0, || {
        let (a, _) = mk::<E, N>();
        let want: Vec<u64> = a.iter().map(clone_logs_key).collect();
        log_reset();
        let b = a.clone();
        let calls = log_take();
        expect_seq("Clone::clone called once per element, in index order", &calls, &want, E::KEYED)?;
        if b.len() != n {
            return Err("CallCount: clone length".into());
        }
        drop(b);
        // boxed
        let bx = Box::new(a);
        log_reset();
        let c = bx.clone();
        let calls = log_take();
        expect_seq("Box clone: Clone::clone once per element, in index order", &calls, &want, E::KEYED)?;
        drop(c);
        Ok(())
    });
    st.check_case("C08", "default", E::NAME, || format!("C08 default {} N={n}", E::NAME), n > 0, || {
        let idx: Vec<u64> = (0..n as u64).collect();
        log_reset();
        let a = GA::<E, N>::default();
        let calls = log_take();
        expect_seq("Default::default called N times", &calls, &idx, true)?;
        drop(a);
        log_reset();
        let b = GA::<E, N>::default_boxed();
        let calls = log_take();
        expect_seq("default_boxed: Default::default called N times", &calls, &idx, true)?;
        drop(b);
        Ok(())
    });
}

/// position = call number for defaulted elements that carry their call number
fn t_default_positions<N: ArrayLength>(st: &mut Stats) {
    let n = N::USIZE;
    st.check_case("C08", "default.positions", "DTok/Obs", || format!("C08 default.positions N={n}"), n > 0, || {
        log_reset();
        let a = GA::<DTok, N>::default();
        log_take();
        for (i, e) in a.iter().enumerate() {
            if e.call != i as u64 {
                return Err(format!("OrderMismatch: defaulted element at index {i} was produced by call {}", e.call));
            }
        }
        log_reset();
        let b = GA::<Obs, N>::default_boxed();
        log_take();
        for (i, e) in b.iter().enumerate() {
            if e.v != i as u32 {
                return Err(format!("OrderMismatch: boxed defaulted element at index {i} was produced by call {}", e.v));
            }
        }
        log_reset();
        let c = GA::<Obs, N>::default();
        log_take();
        let d = c.clone();
        log_take();
        for (i, (x, y)) in c.iter().zip(d.iter()).enumerate() {
            if y.v != x.v || y.generation != x.generation + 1 {
                return Err(format!("CloneValue: clone[{i}] is not Clone::clone(a[{i}]) (generation {} -> {})", x.generation, y.generation));
            }
        }
        Ok(())
    });
}

/// boxed map/zip into a type of the same size but stricter alignment (in-place reuse would be UB)
fn t_box_realign<N: ArrayLength>(st: &mut Stats) {
    let n = N::USIZE;
    st.check_case("C08", "map.box", "[u8;4]>u32", || format!("C08 map.box [u8;4]>u32 N={n}"), n > 0, || {
        let b: Box<GA<[u8; 4], N>> = Box::new(GA::<[u8; 4], N>::generate(|i| (i as u32 * 3).to_le_bytes()));
        let mut calls = Vec::new();
        let out: Box<GA<u32, N>> = b.map(|x| {
            let v = u32::from_le_bytes(x);
            calls.push(v as u64);
            v
        });
        let want: Vec<u64> = (0..n as u64).map(|i| i * 3).collect();
        expect_seq("boxed map arguments", &calls, &want, true)?;
        expect_seq("boxed map results", &out.iter().map(|v| *v as u64).collect::<Vec<_>>(), &want, true)
    });
}

/// map / zip between plain (no drop glue) element types of every size relation -- narrowing, same
/// size, widening, to and from zero-sized, same and different alignment -- in all four receiver
/// forms, with a STATEFUL closure: the argument sequence must be a[0], a[1], ... and result i must
/// be the value the i-th call returned (a block-reusing implementation that walks backwards to
/// widen in place gives every pure closure the right values and every stateful one the wrong ones)
fn t_resize<A: Copy + 'static, B: Copy + 'static, N: ArrayLength>(st: &mut Stats, name: &'static str, mk_a: fn(u64) -> A, rd_a: fn(&A) -> u64, mk_b: fn(u64) -> B, rd_b: fn(&B) -> u64) {
    let n = N::USIZE;
    for form in ["owned", "ref", "mut", "box", "box.zip", "owned.zip"] {
        st.check_case("C08", "map.resize", name, || format!("C08 map.resize {form} {name} N={n}"), n > 0, || {
            let a: GA<A, N> = GA::<A, N>::generate(|i| mk_a(i as u64 * 5 + 1));
            let mut a2: GA<A, N> = GA::<A, N>::generate(|i| mk_a(i as u64 * 5 + 1));
            let mut calls: Vec<u64> = Vec::new();
            let mut running = 0u64;
            let mut f = |x: u64| {
                calls.push(x);
                running = running.wrapping_mul(3).wrapping_add(x); // depends on every earlier call
                mk_b(running)
            };
            let out: Vec<u64> = match form {
                "owned" => a.map(|x| f(rd_a(&x))).iter().map(rd_b).collect(),
                "ref" => (&a).map(|x| f(rd_a(x))).iter().map(rd_b).collect(),
                "mut" => (&mut a2).map(|x| f(rd_a(x))).iter().map(rd_b).collect(),
                "box" => Box::new(a).map(|x| f(rd_a(&x))).iter().map(rd_b).collect(),
                "box.zip" => Box::new(a).zip(Box::new(a2), |x, _y| f(rd_a(&x))).iter().map(rd_b).collect(),
                _ => a.zip(a2, |x, _y| f(rd_a(&x))).iter().map(rd_b).collect(),
            };
            let want_calls: Vec<u64> = (0..n as u64).map(|i| rd_a(&mk_a(i * 5 + 1))).collect();
            let mut r = 0u64;
            let want_out: Vec<u64> = want_calls.iter().map(|x| { r = r.wrapping_mul(3).wrapping_add(*x); rd_b(&mk_b(r)) }).collect();
            expect_seq("arguments a[0], a[1], ... in ascending order", &calls, &want_calls, true)?;
            expect_seq("result[i] = what the i-th call returned", &out, &want_out, true)
        });
    }
}

fn t_resize_all<N: ArrayLength>(st: &mut Stats) {
    t_resize::<u8, [u8; 3], N>(st, "u8>[u8;3]", |v| v as u8, |a| *a as u64, |v| [v as u8, (v >> 8) as u8, (v >> 16) as u8], |b| b[0] as u64 | (b[1] as u64) << 8 | (b[2] as u64) << 16);
    t_resize::<[u8; 3], u8, N>(st, "[u8;3]>u8", |v| [v as u8, 7, 9], |a| a[0] as u64, |v| v as u8, |b| *b as u64);
    t_resize::<u32, (u32, u32), N>(st, "u32>(u32,u32)", |v| v as u32, |a| *a as u64, |v| (v as u32, (v >> 32) as u32), |b| b.0 as u64 | (b.1 as u64) << 32);
    t_resize::<(u32, u32), u32, N>(st, "(u32,u32)>u32", |v| (v as u32, 1), |a| a.0 as u64, |v| v as u32, |b| *b as u64);
    t_resize::<u16, u64, N>(st, "u16>u64", |v| v as u16, |a| *a as u64, |v| v, |b| *b);
    t_resize::<u64, u16, N>(st, "u64>u16", |v| v, |a| *a, |v| v as u16, |b| *b as u64);
    t_resize::<u32, f32, N>(st, "u32>f32", |v| v as u32, |a| *a as u64, |v| (v % 1000) as f32, |b| *b as u64);
    t_resize::<u8, (), N>(st, "u8>()", |v| v as u8, |a| *a as u64, |_| (), |_| 0);
    t_resize::<(), u8, N>(st, "()>u8", |_| (), |_| 1, |v| v as u8, |b| *b as u64);
    t_resize::<u8, [u64; 4], N>(st, "u8>[u64;4]", |v| v as u8, |a| *a as u64, |v| [v, !v, v, 1], |b| b[0] ^ !b[1]);
}

/// The boxed forms exist for arrays that do not fit a stack: map, zip and fold over a boxed
/// 1 MiB array on a thread with a 256 KiB stack must visit the indices in order like every other
/// form (an implementation that moves the array out of its box first cannot run at all there).
fn boxed_on_small_stack(st: &mut Stats) {
    if cfg!(miri) {
        return;
    }
    type Big = generic_array::typenum::U131072; // x u64 = 1 MiB
    st.check_case("C08", "boxed.small_stack", "u64", || "C08 boxed map/zip/fold over 1 MiB arrays on a 256 KiB stack".to_string(), true, || {
        let h = std::thread::Builder::new()
            .stack_size(256 * 1024)
            .spawn(|| -> Result<(), String> {
                let n = <Big as generic_array::typenum::Unsigned>::USIZE;
                let a: Box<GA<u64, Big>> = <Box<GA<u64, Big>> as GenericSequence<u64>>::generate(|i| i as u64);
                let mut expect = 0u64;
                let folded = a.fold(0u64, |acc, x| {
                    if x != expect {
                        return u64::MAX;
                    }
                    expect += 1;
                    acc.wrapping_mul(31).wrapping_add(x)
                });
                let want = (0..n as u64).fold(0u64, |acc, x| acc.wrapping_mul(31).wrapping_add(x));
                if folded != want || expect != n as u64 {
                    return Err(format!("OrderMismatch: boxed fold visited {expect} of {n} indices in order"));
                }
                let a: Box<GA<u64, Big>> = <Box<GA<u64, Big>> as GenericSequence<u64>>::generate(|i| i as u64);
                let mut next = 0u64;
                let m: Box<GA<u64, Big>> = a.map(|x| {
                    let ok = x == next;
                    next += 1;
                    if ok { x * 2 } else { u64::MAX }
                });
                if next != n as u64 || m.iter().enumerate().any(|(i, x)| *x != 2 * i as u64) {
                    return Err("OrderMismatch: boxed map".into());
                }
                let b: Box<GA<u64, Big>> = <Box<GA<u64, Big>> as GenericSequence<u64>>::generate(|i| 3 * i as u64);
                let mut next = 0u64;
                let z: Box<GA<u64, Big>> = m.zip(b, |l, r| {
                    let ok = l == 2 * next && r == 3 * next;
                    next += 1;
                    if ok { l + r } else { u64::MAX }
                });
                if next != n as u64 || z.iter().enumerate().any(|(i, x)| *x != 5 * i as u64) {
                    return Err("OrderMismatch: boxed zip".into());
                }
                Ok(())
            })
            .map_err(|e| format!("HarnessBug: cannot spawn: {e}"))?;
        match h.join() {
            Ok(r) => r,
            Err(_) => Err("Panic: small-stack thread panicked".into()),
        }
    });
}

fn all_n<N: ArrayLength>(st: &mut Stats, args: &Args) {
    if args.part_on("generate") {
        t_generate::<Tok, N>(st);
        t_generate::<u32, N>(st);
        t_generate::<ZTok, N>(st);
        t_generate::<ZObs, N>(st);
    }
    if args.part_on("map") {
        t_box_realign::<N>(st);
        t_map_fold::<Tok, Tok, N>(st);
        t_map_fold::<u32, u32, N>(st);
        t_map_fold::<Tok, u32, N>(st);
        t_map_fold::<u32, Tok, N>(st);
        t_map_fold::<ZTok, u32, N>(st);
    }
    if args.part_on("zip") {
        t_zip::<Tok, Tok, Tok, N>(st);
        t_zip::<u32, u32, u32, N>(st);
        t_zip::<Tok, u32, u32, N>(st);
        t_zip::<u32, Tok, u32, N>(st);
        t_zip::<u32, u32, Tok, N>(st);
        t_zip::<ZTok, u32, u32, N>(st);
    }
    if args.part_on("clone") {
        t_clone_default::<Obs, N>(st, |e| e.v as u64);
        t_clone_default::<Obs1, N>(st, |e| e.0 as u64);
        t_clone_default::<DTok, N>(st, |e| e.t.raw_id());
        t_clone_default::<ZObs, N>(st, |_| 0);
        t_default_positions::<N>(st);
    }
}

macro_rules! lens {
    ($st:expr, $args:expr, [$($v:literal),*]) => { $( if $v <= $args.maxn { all_n::<U<$v>>($st, &$args); } )* };
}

fn main() {
    let args = Args::parse();
    let mut st = Stats::new("order", &args);
    if args.maxn >= 1024 && args.part_on("map") {
        boxed_on_small_stack(&mut st);
    }
    lens!(&mut st, args, [0, 1, 2, 3, 4, 5, 6, 7, 8]);
    lens!(&mut st, args, [9, 10, 11, 12, 13, 15, 16, 17, 24, 31, 32, 33, 63, 64, 65, 100, 127, 128, 129, 255, 256, 257, 1000, 1024]);
    if args.thorough() {
        lens!(&mut st, args, [511, 512, 513, 1023]);
    }
    if args.part_on("map") {
        // (a shorter length list: ten type pairs x six forms per length is a lot of optimised code)
        macro_rules! resize_lens { ([$($v:literal),*]) => { $( if $v <= args.maxn { t_resize_all::<U<$v>>(&mut st); } )* }; }
        resize_lens!([0, 1, 2, 3, 5, 8, 17, 100]);
    }
    st.finish();
}
