//! layout — C01: GenericArray<T, N> has exactly the layout of [T; N].
//!
//!  * size/align observers: 8 representative layouts x every N in 0..=1024, all 164
//!    layouts x the length lattice, and every large length typenum names (2^k, 2^k-1,
//!    10^k up to 2^62) for which N*size stays below rustc's object-size bound;
//!    the full 164 x 1025 cross product lives in the layoutx0..7 part binaries;
//!  * materialisation: a GenericArray<MaybeUninit<T>, N> inside a frame, slice views
//!    checked for start address, count, size_of_val and the address of every element;
//!  * initialised round trip through from_array / as_slice / AsRef<[T;N]> / into_array
//!    (under Miri a view that reads padding or leaves the object is an error);
//!  * drop-glue tiling: a GenericArray<Tok, N> filled through the slice view and
//!    dropped as a value must release exactly its N identities, for every N <= 1024.

include!("../layout_common.rs");

#[repr(C)]
struct Frame<A> {
    pre: u8,
    a: A,
    post: u8,
}

/// What the typed part observed; judged by non-generic code.
struct MatFacts {
    base: usize,
    post: usize,
    slice_ptr: usize,
    slice_len: usize,
    slice_bytes: usize,
    mut_ptr: usize,
    mut_len: usize,
    first_bad_offset: Option<(usize, usize)>,
    readback_ok: bool,
    guards_ok: bool,
    array_bytes: usize,
}

#[inline(never)]
fn mat_facts<T: Lay, N: ArrayLength>() -> MatFacts {
    let sz = size_of::<T>();
    let mut f: Frame<GA<MaybeUninit<T>, N>> = Frame { pre: 0xAA, a: GA::<T, N>::uninit(), post: 0x55 };
    let base = &f.a as *const _ as usize;
    let post = &f.post as *const u8 as usize;
    let (slice_ptr, slice_len, slice_bytes, mut first_bad) = {
        let s = f.a.as_slice();
        let mut bad = None;
        for (i, e) in s.iter().enumerate() {
            let at = e as *const _ as usize;
            if at != base + i * sz {
                bad = Some((i, at.wrapping_sub(base)));
                break;
            }
        }
        (s.as_ptr() as usize, s.len(), core::mem::size_of_val(s), bad)
    };
    let (mut_ptr, mut_len) = {
        let s = f.a.as_mut_slice();
        for (i, e) in s.iter_mut().enumerate() {
            e.write(T::make(i as u8));
        }
        (s.as_ptr() as usize, s.len())
    };
    let guards_ok = f.pre == 0xAA && f.post == 0x55;
    let arr: GA<T, N> = unsafe { GA::assume_init(f.a) };
    let mut readback_ok = true;
    for (i, e) in arr.iter().enumerate() {
        if e.probe() != T::make(i as u8).probe() {
            readback_ok = false;
            if first_bad.is_none() {
                first_bad = Some((i, usize::MAX));
            }
            break;
        }
    }
    MatFacts { base, post, slice_ptr, slice_len, slice_bytes, mut_ptr, mut_len, first_bad_offset: first_bad, readback_ok, guards_ok, array_bytes: size_of::<GA<T, N>>() }
}

#[inline(always)]
fn materialise<T: Lay, N: ArrayLength>(st: &mut Stats) {
    judge_mat(st, T::NAME, size_of::<T>(), align_of::<T>(), N::USIZE, mat_facts::<T, N>);
}

fn judge_mat(st: &mut Stats, name: &'static str, sz: usize, al: usize, n: usize, f: fn() -> MatFacts) {
    let Some(desc) = st.select(|| format!("C01 materialise {name} N={n}")) else { return };
    let m = f();
    let mut bad: Option<String> = None;
    if m.base % al != 0 {
        bad = Some(format!("AlignMismatch: array placed at {:#x}, not aligned to {al}", m.base));
    }
    if m.post < m.base + n * sz {
        bad = Some(format!("ExtentMismatch: the field after the array starts at +{}, inside N*size = {}", m.post - m.base, n * sz));
    }
    if m.slice_ptr != m.base || m.slice_len != n || m.slice_bytes != m.array_bytes || m.slice_bytes != n * sz {
        bad = Some(format!("ViewMismatch: as_slice at +{} len {} bytes {}", m.slice_ptr.wrapping_sub(m.base), m.slice_len, m.slice_bytes));
    }
    if m.mut_ptr != m.base || m.mut_len != n {
        bad = Some("ViewMismatch: as_mut_slice".into());
    }
    if let Some((i, off)) = m.first_bad_offset {
        bad = Some(format!("OffsetMismatch: element {i} at +{off}"));
    }
    if !m.readback_ok {
        bad = Some("ContentMismatch: an element written through as_mut_slice read back differently".into());
    }
    if !m.guards_ok {
        bad = Some("GuardClobbered: a neighbour of the array was overwritten".into());
    }
    if let Some(e) = bad {
        let kind = e.split(':').next().unwrap().to_string();
        st.violation("C01", &format!("materialise|{name}|{kind}"), &desc, &e);
    }
    st.op("materialise");
    st.done(&desc, n > 0);
}

#[inline(never)]
fn rt_facts<T: Lay, N: ArrayLength, const K: usize>() -> Result<(), &'static str>
where
    Const<K>: IntoArrayLength<ArrayLength = N>,
{
    let nat: [T; K] = core::array::from_fn(|i| T::make(i as u8));
    let want: Vec<u64> = nat.iter().map(|e| e.probe()).collect();
    let a: GA<T, N> = GA::from_array(nat);
    if a.as_slice().iter().map(|e| e.probe()).ne(want.iter().copied()) {
        return Err("ContentMismatch: as_slice after from_array");
    }
    let base = &a as *const _ as usize;
    if size_of::<[T; K]>() != size_of::<GA<T, N>>() || align_of::<[T; K]>() != align_of::<GA<T, N>>() {
        return Err("NativeArrayMismatch: [T;N] and GenericArray<T,N> differ in size or alignment");
    }
    let r: &[T; K] = unsafe { &*(a.as_slice().as_ptr() as *const [T; K]) };
    if r.as_ptr() as usize != base || r.iter().map(|e| e.probe()).ne(want.iter().copied()) {
        return Err("ContentMismatch: native-array view");
    }
    let mut back: [T; K] = a.into_array();
    if back.iter().map(|e| e.probe()).ne(want.iter().copied()) {
        return Err("ContentMismatch: into_array");
    }
    // mutable native-array views in both directions: write through one, read through the other
    if K > 0 {
        {
            let g: &mut GA<T, N> = <&mut GA<T, N>>::from(&mut back);
            g.as_mut_slice()[K - 1] = T::make(200);
        }
        if back[K - 1].probe() != T::make(200).probe() {
            return Err("ContentMismatch: write through From<&mut [T;N]> not visible in the native array");
        }
        let mut ga: GA<T, N> = GA::from_array(back);
        {
            let m: &mut [T; K] = AsMut::<[T; K]>::as_mut(&mut ga);
            m[0] = T::make(201);
        }
        if ga.as_slice()[0].probe() != T::make(201).probe() {
            return Err("ContentMismatch: write through AsMut<[T;N]> not visible in the array");
        }
        let shared: &GA<T, N> = <&GA<T, N>>::from(AsRef::<[T; K]>::as_ref(&ga));
        if shared.as_slice()[0].probe() != T::make(201).probe() || shared as *const _ as usize != &ga as *const _ as usize {
            return Err("ContentMismatch: From<&[T;N]> over AsRef<[T;N]> is not the same storage");
        }
    }
    Ok(())
}

#[inline(always)]
fn roundtrip<T: Lay, N: ArrayLength, const K: usize>(st: &mut Stats)
where
    Const<K>: IntoArrayLength<ArrayLength = N>,
{
    judge_rt(st, T::NAME, K, rt_facts::<T, N, K>);
}

fn judge_rt(st: &mut Stats, name: &'static str, n: usize, f: fn() -> Result<(), &'static str>) {
    st.check_case("C01", "roundtrip", name, || format!("C01 roundtrip {name} N={n}"), n > 0, || f().map_err(|e| e.to_string()));
}


/// Reinterpreting views that exist only because of the layout guarantee: slices regrouped into
/// chunks (`chunks_from_slice(_mut)`, `slice_from_chunks`, `from_chunks`/`into_chunks`) and rows
/// regrouped by `flatten`/`unflatten` (`&`, `&mut`, owned).  For every layout: same address,
/// element (i, j) at base + (i*N + j)*size, writes through the regrouped `&mut` visible in the
/// source, nothing outside the source touched (Miri checks the extents and provenance).
#[inline(never)]
fn views_facts<T: Lay, N: ArrayLength, const K: usize>() -> Result<(), String>
where
    Const<K>: IntoArrayLength<ArrayLength = N>,
    N: core::ops::Mul<U2>,
    generic_array::typenum::Prod<N, U2>: ArrayLength,
{
    use generic_array::sequence::Flatten;
    let sz = size_of::<T>();
    let total = 2 * K + 1;
    let mut src: Vec<T> = (0..total).map(|i| T::make(i as u8)).collect();
    let want: Vec<u64> = src.iter().map(|e| e.probe()).collect();
    let base = src.as_ptr() as usize;
    if K > 0 {
        let (nch, nrem) = (total / K, total % K);
        let (ch, rem) = GA::<T, N>::chunks_from_slice(&src);
        if ch.len() != nch || rem.len() != nrem {
            return Err(format!("ChunkCount: {} chunks + {} left from {total} elements", ch.len(), rem.len()));
        }
        if ch.as_ptr() as usize != base || rem.as_ptr() as usize != base + nch * K * sz || core::mem::size_of_val(ch) != nch * K * sz {
            return Err("AddressMismatch: chunk view does not start at the slice / remainder not right behind it".into());
        }
        for (i, c) in ch.iter().enumerate() {
            for (j, e) in c.iter().enumerate() {
                if e as *const T as usize != base + (i * K + j) * sz || e.probe() != want[i * K + j] {
                    return Err(format!("OffsetMismatch: chunk {i} element {j}"));
                }
            }
        }
        let back = GA::<T, N>::slice_from_chunks(ch);
        if back.as_ptr() as usize != base || back.len() != nch * K {
            return Err("AddressMismatch: slice_from_chunks".into());
        }
        let nat: &[[T; K]] = GA::<T, N>::into_chunks(ch);
        if nat.as_ptr() as usize != base || nat.len() != nch || nat[1][K - 1].probe() != want[2 * K - 1] {
            return Err("AddressMismatch: into_chunks".into());
        }
        let again: &[GA<T, N>] = GA::<T, N>::from_chunks(nat);
        if again.as_ptr() as usize != base || again.len() != nch {
            return Err("AddressMismatch: from_chunks".into());
        }
        // mutable chunk view: write through it, read through the source
        {
            let (chm, remm) = GA::<T, N>::chunks_from_slice_mut(&mut src);
            if chm.len() != nch || remm.len() != nrem {
                return Err("ChunkCount: chunks_from_slice_mut".into());
            }
            chm[1][0] = T::make(77);
            if nrem > 0 {
                remm[0] = T::make(78);
            }
            let natm: &mut [[T; K]] = GA::<T, N>::into_chunks_mut(chm);
            natm[0][K - 1] = T::make(79);
            let gm: &mut [GA<T, N>] = GA::<T, N>::from_chunks_mut(natm);
            let flat = GA::<T, N>::slice_from_chunks_mut(gm);
            flat[0] = T::make(80);
        }
        let mut exp = want.clone();
        exp[K] = T::make(77).probe();
        if nrem > 0 {
            exp[nch * K] = T::make(78).probe();
        }
        exp[K - 1] = T::make(79).probe();
        exp[0] = T::make(80).probe();
        if src.iter().map(|e| e.probe()).ne(exp.iter().copied()) {
            return Err("ContentMismatch: writes through the mutable chunk views are not where the source expects them".into());
        }
    } else {
        let empty: &[T] = &src[..0];
        let (ch, rem) = GA::<T, N>::chunks_from_slice(empty);
        if !ch.is_empty() || !rem.is_empty() {
            return Err("ChunkCount: N = 0 over an empty slice".into());
        }
        // zero-length arrays still regroup one to one with [T; 0]: five of one are five of the other,
        // at the same (aligned) address, in both directions and both mutabilities
        let mut nat: [[T; K]; 5] = core::array::from_fn(|_| core::array::from_fn(|i| T::make(i as u8)));
        let nbase = nat.as_ptr() as usize;
        let g: &[GA<T, N>] = GA::<T, N>::from_chunks(&nat);
        if g.len() != 5 || g.as_ptr() as usize != nbase {
            return Err(format!("ChunkCount: from_chunks over 5 empty native arrays gives {} arrays at +{}", g.len(), (g.as_ptr() as usize).wrapping_sub(nbase)));
        }
        let back: &[[T; K]] = GA::<T, N>::into_chunks(g);
        if back.len() != 5 || back.as_ptr() as usize != nbase {
            return Err("ChunkCount: into_chunks is not the inverse of from_chunks for N = 0".into());
        }
        let flat = GA::<T, N>::slice_from_chunks(g);
        if !flat.is_empty() {
            return Err("ChunkCount: slice_from_chunks of empty arrays is not empty".into());
        }
        let gm: &mut [GA<T, N>] = GA::<T, N>::from_chunks_mut(&mut nat);
        if gm.len() != 5 || gm.as_ptr() as usize != nbase {
            return Err("ChunkCount: from_chunks_mut over 5 empty native arrays".into());
        }
        let bm: &mut [[T; K]] = GA::<T, N>::into_chunks_mut(gm);
        if bm.len() != 5 || bm.as_ptr() as usize != nbase {
            return Err("ChunkCount: into_chunks_mut for N = 0".into());
        }
    }
    // rows: GenericArray<GenericArray<T, N>, U2>
    let mut rows: GA<GA<T, N>, U2> = GA::<GA<T, N>, U2>::generate(|i| GA::<T, N>::generate(|j| T::make((i * K + j) as u8)));
    if size_of::<GA<GA<T, N>, U2>>() != 2 * K * sz || align_of::<GA<GA<T, N>, U2>>() != align_of::<T>() {
        return Err("NestedLayout: GenericArray<GenericArray<T,N>,U2> is not 2*N*size, aligned as T".into());
    }
    let rbase = &rows as *const _ as usize;
    {
        let f: &GA<T, generic_array::typenum::Prod<N, U2>> = (&rows).flatten();
        if f as *const _ as usize != rbase || f.len() != 2 * K {
            return Err("AddressMismatch: (&rows).flatten()".into());
        }
        for (i, e) in f.iter().enumerate() {
            if e as *const T as usize != rbase + i * sz || e.probe() != T::make(i as u8).probe() {
                return Err(format!("OffsetMismatch: flattened element {i}"));
            }
        }
    }
    if K > 0 {
        {
            let f: &mut GA<T, generic_array::typenum::Prod<N, U2>> = (&mut rows).flatten();
            f[K] = T::make(90);
            f[K - 1] = T::make(91);
        }
        if rows[1][0].probe() != T::make(90).probe() || rows[0][K - 1].probe() != T::make(91).probe() {
            return Err("ContentMismatch: write through (&mut rows).flatten() not visible in the rows".into());
        }
    }
    let flat: GA<T, generic_array::typenum::Prod<N, U2>> = rows.flatten();
    let mut expf: Vec<u64> = (0..2 * K).map(|i| T::make(i as u8).probe()).collect();
    if K > 0 {
        expf[K] = T::make(90).probe();
        expf[K - 1] = T::make(91).probe();
    }
    if flat.iter().map(|e| e.probe()).ne(expf.iter().copied()) {
        return Err("ContentMismatch: owned flatten".into());
    }
    Ok(())
}

#[inline(never)]
fn unflat_facts<T: Lay, N: ArrayLength, const K: usize>() -> Result<(), String>
where
    Const<K>: IntoArrayLength<ArrayLength = N>,
    N: core::ops::Mul<U3>,
    generic_array::typenum::Prod<N, U3>: ArrayLength + core::ops::Div<N>,
    generic_array::typenum::Quot<generic_array::typenum::Prod<N, U3>, N>: ArrayLength,
{
    use generic_array::sequence::Unflatten;
    type NM<N> = generic_array::typenum::Prod<N, U3>;
    let sz = size_of::<T>();
    let mut flat: GA<T, NM<N>> = GA::<T, NM<N>>::generate(|i| T::make(i as u8));
    let base = &flat as *const _ as usize;
    {
        let rows = Unflatten::<T, NM<N>, N>::unflatten(&flat);
        if rows as *const _ as usize != base || rows.len() != 3 || core::mem::size_of_val(rows) != 3 * K * sz {
            return Err(format!("AddressMismatch: (&flat).unflatten() gives {} rows", rows.len()));
        }
        for (i, r) in rows.iter().enumerate() {
            for (j, e) in r.iter().enumerate() {
                if e as *const T as usize != base + (i * K + j) * sz || e.probe() != T::make((i * K + j) as u8).probe() {
                    return Err(format!("OffsetMismatch: row {i} element {j}"));
                }
            }
        }
    }
    {
        let rows = Unflatten::<T, NM<N>, N>::unflatten(&mut flat);
        rows[2][0] = T::make(92);
        rows[1][K - 1] = T::make(93);
    }
    if flat[2 * K].probe() != T::make(92).probe() || flat[2 * K - 1].probe() != T::make(93).probe() {
        return Err("ContentMismatch: write through (&mut flat).unflatten() not visible in the flat array".into());
    }
    let rows = Unflatten::<T, NM<N>, N>::unflatten(flat);
    if rows.len() != 3 || rows[2][0].probe() != T::make(92).probe() || rows[0][0].probe() != T::make(0).probe() {
        return Err("ContentMismatch: owned unflatten".into());
    }
    Ok(())
}

#[inline(always)]
fn views<T: Lay, N: ArrayLength, const K: usize>(st: &mut Stats)
where
    Const<K>: IntoArrayLength<ArrayLength = N>,
    N: core::ops::Mul<U2>,
    generic_array::typenum::Prod<N, U2>: ArrayLength,
{
    judge_views(st, "regrouped_views", T::NAME, K, views_facts::<T, N, K>);
}

#[inline(always)]
fn unflat<T: Lay, N: ArrayLength, const K: usize>(st: &mut Stats)
where
    Const<K>: IntoArrayLength<ArrayLength = N>,
    N: core::ops::Mul<U3>,
    generic_array::typenum::Prod<N, U3>: ArrayLength + core::ops::Div<N>,
    generic_array::typenum::Quot<generic_array::typenum::Prod<N, U3>, N>: ArrayLength,
{
    judge_views(st, "unflatten_views", T::NAME, K, unflat_facts::<T, N, K>);
}

fn judge_views(st: &mut Stats, what: &'static str, name: &'static str, n: usize, f: fn() -> Result<(), String>) {
    st.check_case("C01", what, name, || format!("C01 {what} {name} N={n}"), n > 0, || f().map_err(|e| {
        let kind = e.split(':').next().unwrap_or("Mismatch").to_string();
        let _ = kind;
        e
    }));
}


/// By-value regrouping moves that rely on the layout: splitting an array into two, popping and
/// pushing at either end, concatenating.  Each is a reinterpretation of the N*size bytes as two
/// adjacent pieces; for every layout the pieces must hold the elements a Vec would hold.
#[inline(never)]
fn moves_facts<T: Lay>() -> Result<(), String> {
    use generic_array::sequence::{Concat, Lengthen, Shorten, Split};
    fn mk<T: Lay, N: ArrayLength>(base: usize) -> GA<T, N> {
        GA::<T, N>::generate(|i| T::make((base + i) as u8))
    }
    fn pr<T: Lay>(s: &[T]) -> Vec<u64> {
        s.iter().map(|e| e.probe()).collect()
    }
    fn want<T: Lay>(r: core::ops::Range<usize>) -> Vec<u64> {
        r.map(|i| T::make(i as u8).probe()).collect()
    }
    macro_rules! split_case {
        ($n:literal, $k:literal) => {{
            let (h, t): (GA<T, U<$k>>, GA<T, U<{ $n - $k }>>) = Split::<T, U<$k>>::split(mk::<T, U<$n>>(0));
            if pr(&h) != want::<T>(0..$k) || pr(&t) != want::<T>($k..$n) {
                return Err(format!("ContentMismatch: split of {} at {}: head {:x?}, tail {:x?}", $n, $k, pr(&h), pr(&t)));
            }
            let back: GA<T, U<$n>> = Concat::concat(h, t);
            if pr(&back) != want::<T>(0..$n) {
                return Err(format!("ContentMismatch: concat {} ++ {}", $k, $n - $k));
            }
        }};
    }
    split_case!(3, 1);
    split_case!(3, 2);
    split_case!(5, 1);
    split_case!(5, 4);
    split_case!(7, 3);
    split_case!(12, 4);
    split_case!(2, 0);
    split_case!(2, 2);
    macro_rules! pop_case {
        ($n:literal) => {{
            let (x, rest) = mk::<T, U<$n>>(0).pop_front();
            if x.probe() != T::make(0).probe() || pr(&rest) != want::<T>(1..$n) {
                return Err(format!("ContentMismatch: pop_front of {}: got {:x} and {:x?}", $n, x.probe(), pr(&rest)));
            }
            let (rest, y) = mk::<T, U<$n>>(0).pop_back();
            if y.probe() != T::make($n - 1).probe() || pr(&rest) != want::<T>(0..$n - 1) {
                return Err(format!("ContentMismatch: pop_back of {}", $n));
            }
            let a = mk::<T, U<$n>>(1).prepend(T::make(0));
            if pr(&a) != want::<T>(0..$n + 1) {
                return Err(format!("ContentMismatch: prepend to {}", $n));
            }
            let a = mk::<T, U<$n>>(0).append(T::make($n));
            if pr(&a) != want::<T>(0..$n + 1) {
                return Err(format!("ContentMismatch: append to {}", $n));
            }
        }};
    }
    pop_case!(1);
    pop_case!(2);
    pop_case!(3);
    pop_case!(4);
    pop_case!(5);
    pop_case!(8);
    pop_case!(9);
    Ok(())
}

fn moves<T: Lay>(st: &mut Stats) {
    judge_views(st, "regrouping_moves", T::NAME, 12, moves_facts::<T>);
}

/// heap placement: a Box<GenericArray<T, N>> built by every boxed constructor must sit at an
/// address aligned as T (also when nothing is allocated: zero-sized T or N = 0), hold N
/// elements at base + i*size, and read back what was written
struct BoxFacts {
    addrs: [usize; 4],
    lens: [usize; 4],
    stride_ok: bool,
    readback_ok: bool,
}

#[inline(never)]
fn box_facts<T: Lay, N: ArrayLength>() -> BoxFacts {
    use generic_array::sequence::GenericSequence;
    let sz = size_of::<T>();
    let mut stride_ok = true;
    let mut readback_ok = true;
    let mut look = |b: &GA<T, N>| -> (usize, usize) {
        let base = std::hint::black_box(b as *const GA<T, N> as usize);
        let s = b.as_slice();
        for (i, e) in s.iter().enumerate() {
            if e as *const T as usize != base + i * sz {
                stride_ok = false;
            }
            if e.probe() != T::make(i as u8).probe() {
                readback_ok = false;
            }
        }
        (base, s.len())
    };
    let a: Box<GA<T, N>> = <Box<GA<T, N>> as GenericSequence<T>>::generate(|i| T::make(i as u8));
    let r0 = look(&a);
    let b: Box<GA<T, N>> = Box::new(GA::<T, N>::generate(|i| T::make(i as u8)));
    let r1 = look(&b);
    // the O(1) conversions keep the block, hence its alignment
    let bs: Box<[T]> = b.into_boxed_slice();
    let slice_aligned = std::hint::black_box(bs.as_ptr() as usize) % align_of::<T>() == 0;
    let c: Box<GA<T, N>> = match GA::<T, N>::try_from_boxed_slice(bs) {
        Ok(c) => c,
        Err(_) => unreachable!(),
    };
    let r2 = look(&c);
    let r3 = {
        let mut v: Vec<T> = Vec::with_capacity(N::USIZE + 3);
        for i in 0..N::USIZE {
            v.push(T::make(i as u8));
        }
        match GA::<T, N>::try_from_vec(v) {
            Ok(d) => look(&d), // dropped here: the block must be released with [T; N]'s layout
            Err(_) => unreachable!(),
        }
    };
    // a Vec made from the boxed array owns exactly [T; N]'s block: N elements of room, no more
    let mut vec_ok = true;
    {
        let e: Box<GA<T, N>> = <Box<GA<T, N>> as GenericSequence<T>>::generate(|i| T::make(i as u8));
        let v: Vec<T> = e.into_vec();
        if sz > 0 && (v.capacity() != N::USIZE || v.len() != N::USIZE) {
            vec_ok = false;
        }
        if std::hint::black_box(v.as_ptr() as usize) % align_of::<T>() != 0 {
            vec_ok = false;
        }
        // back into a boxed array and dropped: under Miri the block is freed with [T; N]'s layout
        match GA::<T, N>::try_from_vec(v) {
            Ok(d) => {
                let _ = look(&d);
            }
            Err(_) => unreachable!(),
        }
    }
    if !slice_aligned || !vec_ok {
        stride_ok = false;
    }
    BoxFacts { addrs: [r0.0, r1.0, r2.0, r3.0], lens: [r0.1, r1.1, r2.1, r3.1], stride_ok, readback_ok }
}

#[inline(always)]
fn boxed<T: Lay, N: ArrayLength>(st: &mut Stats) {
    judge_box(st, T::NAME, align_of::<T>(), N::USIZE, box_facts::<T, N>);
}

fn judge_box(st: &mut Stats, name: &'static str, al: usize, n: usize, f: fn() -> BoxFacts) {
    st.check_case("C01", "boxed_placement", name, || format!("C01 boxed_placement {name} N={n}"), al > 1 || n > 0, || {
        let m = f();
        let how = ["Box::generate", "Box::new", "into_boxed_slice/try_from_boxed_slice", "try_from_vec(spare capacity)"];
        for k in 0..4 {
            if m.addrs[k] % al != 0 {
                return Err(format!("AlignMismatch: {} placed the array at {:#x}, not aligned as T (align {al})", how[k], m.addrs[k]));
            }
            if m.lens[k] != n {
                return Err(format!("ViewMismatch: {} gives a slice of {} elements", how[k], m.lens[k]));
            }
        }
        if !m.stride_ok {
            return Err("OffsetMismatch: an element of a boxed array is not at base + i*size (or a converted block is misaligned)".into());
        }
        if !m.readback_ok {
            return Err("ContentMismatch: boxed array read back differently".into());
        }
        Ok(())
    });
}

#[inline(never)]
fn tiling_facts<E: Elem, N: ArrayLength>() -> u64 {
    let a: GA<E, N> = GA::<E, N>::generate(|_| E::fresh());
    let before = ledger::case_counters();
    drop(a); // structural drop glue, not the slice view
    let after = ledger::case_counters();
    (after.drops - before.drops) + (after.zst_drops - before.zst_drops)
}

#[inline(always)]
fn tiling<E: Elem, N: ArrayLength>(st: &mut Stats) {
    judge_tiling(st, E::NAME, N::USIZE, tiling_facts::<E, N>);
}

fn judge_tiling(st: &mut Stats, name: &'static str, n: usize, f: fn() -> u64) {
    st.check_case("C01", "drop_tiling", name, || format!("C01 drop_tiling {name} N={n}"), n > 0, || {
        let d = f();
        if d != n as u64 {
            return Err(format!("TilingMismatch: drop glue released {d} elements, N = {n}"));
        }
        Ok(())
    });
}

macro_rules! lattice_for { ($st:expr, $maxn:expr, $T:ty; $($v:literal)*) => { $( if $v <= $maxn { obs::<$T, U<$v>>($st, $v); materialise::<$T, U<$v>>($st); } )* }; }
macro_rules! each_layout_lattice { ($st:expr, $maxn:expr; $([$T:ty])*) => { $( { fn go(st: &mut Stats, maxn: usize) { tbl_lattice_lens!(lattice_for; st, maxn, $T); } go($st, $maxn); } )* }; }
macro_rules! small_for { ($st:expr, $maxn:expr, $T:ty; $($v:literal)*) => { $( if $v <= $maxn { roundtrip::<$T, U<$v>, $v>($st); } )* }; }
macro_rules! each_layout_small { ($st:expr, $maxn:expr; $([$T:ty])*) => { $( { fn go(st: &mut Stats, maxn: usize) { tbl_small_lens!(small_for; st, maxn, $T); } go($st, $maxn); } )* }; }
macro_rules! boxed_for { ($st:expr, $maxn:expr, $T:ty; $($v:literal)*) => { $( if $v <= $maxn { boxed::<$T, U<$v>>($st); } )* }; }
macro_rules! each_layout_boxed { ($st:expr, $maxn:expr; $([$T:ty])*) => { $( boxed_for!($st, $maxn, $T; 0 1 2 3 8 17); )* }; }
macro_rules! views_for { ($st:expr, $maxn:expr, $T:ty; $($v:literal)*) => { $( if $v <= $maxn { views::<$T, U<$v>, $v>($st); } )* }; }
macro_rules! unflat_for { ($st:expr, $maxn:expr, $T:ty; $($v:literal)*) => { $( if $v <= $maxn { unflat::<$T, U<$v>, $v>($st); } )* }; }
macro_rules! each_layout_moves { ($st:expr, $maxn:expr; $([$T:ty])*) => { $( if $maxn >= 12 { moves::<$T>($st); } )* }; }
macro_rules! each_layout_views { ($st:expr, $maxn:expr; $([$T:ty])*) => { $( { fn go(st: &mut Stats, maxn: usize) { views_for!(st, maxn, $T; 0 1 2 3 5 8 17); unflat_for!(st, maxn, $T; 1 2 3 5 8 17); } go($st, $maxn); } )* }; }
macro_rules! tiling_lens { ($st:expr, $E:ty; $($v:literal)*) => { $( tiling::<$E, U<$v>>($st); )* }; }

fn tiling_all<E: Elem>(st: &mut Stats) {
    fn c0<E: Elem>(st: &mut Stats) { tbl_lens_chunk0!(tiling_lens; st, E); }
    fn c1<E: Elem>(st: &mut Stats) { tbl_lens_chunk1!(tiling_lens; st, E); }
    fn c2<E: Elem>(st: &mut Stats) { tbl_lens_chunk2!(tiling_lens; st, E); }
    fn c3<E: Elem>(st: &mut Stats) { tbl_lens_chunk3!(tiling_lens; st, E); }
    fn c4<E: Elem>(st: &mut Stats) { tbl_lens_chunk4!(tiling_lens; st, E); }
    fn c5<E: Elem>(st: &mut Stats) { tbl_lens_chunk5!(tiling_lens; st, E); }
    fn c6<E: Elem>(st: &mut Stats) { tbl_lens_chunk6!(tiling_lens; st, E); }
    fn c7<E: Elem>(st: &mut Stats) { tbl_lens_chunk7!(tiling_lens; st, E); }
    c0::<E>(st); c1::<E>(st); c2::<E>(st); c3::<E>(st); c4::<E>(st); c5::<E>(st); c6::<E>(st); c7::<E>(st);
}
fn tiling_lattice<E: Elem>(st: &mut Stats) {
    tbl_lattice_lens!(tiling_lens; st, E);
}

fn main() {
    let args = Args::parse();
    let mut st = Stats::new("layout", &args);
    if args.part_on("quick8") {
        for_quick_layouts!(each_layout_all_lens; &mut st);
    }
    if args.part_on("lattice") {
        for_all_layouts!(each_layout_lattice; &mut st, args.maxn);
    }
    if args.part_on("large") {
        h_chunk0(&mut st); h_chunk1(&mut st); h_chunk2(&mut st); h_chunk3(&mut st);
        h_chunk4(&mut st); h_chunk5(&mut st); h_chunk6(&mut st); h_chunk7(&mut st);
    }
    if args.part_on("roundtrip") {
        for_all_layouts!(each_layout_small; &mut st, args.maxn);
    }
    if args.part_on("boxed") {
        for_box_layouts!(each_layout_boxed; &mut st, args.maxn);
    }
    if args.part_on("views") {
        for_box_layouts!(each_layout_views; &mut st, args.maxn);
        for_quick_layouts!(each_layout_views; &mut st, args.maxn);
        for_box_layouts!(each_layout_moves; &mut st, args.maxn);
        for_quick_layouts!(each_layout_moves; &mut st, args.maxn);
    }
    if args.part_on("tiling") {
        tiling_all::<Tok>(&mut st);
        tiling_lattice::<Tok24>(&mut st);
        tiling_lattice::<ZTok>(&mut st);
    }
    st.finish();
}
