//! iterq — C06: the by-value iterator against a double-ended-queue model.
//!
//! Part A (exhaustive one-step): for every N in 0..=8, every reachable position
//! (f, b), every operation with every argument, compare the return value AND the
//! successor state (remaining elements by identity, len, size_hint) with a
//! `VecDeque` of the same ids and with `[u64; N]::into_iter()` driven identically.
//! Because the successor state is compared, one-step agreement from every
//! reachable state covers every finite sequence for those N.
//! Part B: seeded random sequences (with clone-then-diverge) for larger N.

use generic_array::sequence::GenericSequence;
use generic_array::{ArrayLength, GenericArray, GenericArrayIter};
use std::collections::VecDeque;
use vkit::ledger;
use vkit::typenum::U;
use vkit::{fault, Args, Elem, Rng, Stats, Tok, ZTok};

type GA<E, N> = GenericArray<E, N>;

#[derive(Clone, Copy, Debug, PartialEq)]
enum Op {
    Next,
    NextBack,
    Nth(usize),
    NthBack(usize),
    Len,
    AsSlice,
    MutWrite(usize),
    Clone,
    Debug,
    Fold,
    RFold,
    Count,
    Last,
    DropIt,
    PollsAfterExhaustion,
    ForLoop,
    RevCollect,
    /// a std adaptor chain applied through `by_ref()` (kind, argument)
    Adapt(u8, usize),
}

impl Op {
    fn name(&self) -> &'static str {
        match self {
            Op::Next => "next",
            Op::NextBack => "next_back",
            Op::Nth(_) => "nth",
            Op::NthBack(_) => "nth_back",
            Op::Len => "len",
            Op::AsSlice => "as_slice",
            Op::MutWrite(_) => "as_mut_slice",
            Op::Clone => "clone",
            Op::Debug => "debug",
            Op::Fold => "fold",
            Op::RFold => "rfold",
            Op::Count => "count",
            Op::Last => "last",
            Op::DropIt => "drop",
            Op::PollsAfterExhaustion => "exhausted_polls",
            Op::ForLoop => "for_loop",
            Op::RevCollect => "rev_collect",
            Op::Adapt(..) => "adaptor",
        }
    }
}

struct Live<E: Elem, N: ArrayLength> {
    it: GenericArrayIter<E, N>,
    model: VecDeque<u64>,
    /// every id the array started with (to check Debug shows none outside `model`)
    all: Vec<u64>,
}

fn fresh<E: Elem, N: ArrayLength>(f: usize, b: usize) -> Result<Live<E, N>, String> {
    let n = N::USIZE;
    let arr: GA<E, N> = GA::<E, N>::generate(|_| E::fresh());
    let all: Vec<u64> = arr.iter().map(|e| e.key()).collect();
    let mut live = Live { it: arr.into_iter(), model: all.iter().copied().collect(), all };
    for _ in 0..f {
        step(&mut live, Op::Next)?;
    }
    for _ in 0..(n - b) {
        step(&mut live, Op::NextBack)?;
    }
    Ok(live)
}

fn key_opt<E: Elem>(x: &Option<E>) -> Option<u64> {
    x.as_ref().map(|e| e.key())
}

fn model_nth(m: &mut VecDeque<u64>, n: usize) -> Option<u64> {
    let k = n.min(m.len());
    for _ in 0..k {
        m.pop_front();
    }
    m.pop_front()
}
fn model_nth_back(m: &mut VecDeque<u64>, n: usize) -> Option<u64> {
    let k = n.min(m.len());
    for _ in 0..k {
        m.pop_back();
    }
    m.pop_back()
}

fn check_state<E: Elem, N: ArrayLength>(l: &Live<E, N>) -> Result<(), String> {
    let got: Vec<u64> = l.it.as_slice().iter().map(|e| e.key()).collect();
    let want: Vec<u64> = l.model.iter().copied().collect();
    if E::KEYED && got != want {
        return Err(format!("StateMismatch: remaining {got:x?} != model {want:x?}"));
    }
    if got.len() != want.len() {
        return Err(format!("StateMismatch: remaining count {} != model {}", got.len(), want.len()));
    }
    let len = l.it.len();
    if len != l.model.len() {
        return Err(format!("LenMismatch: len() {} != {}", len, l.model.len()));
    }
    let sh = l.it.size_hint();
    if sh != (len, Some(len)) {
        return Err(format!("SizeHintMismatch: {sh:?} with len {len}"));
    }
    Ok(())
}

/// The model as an iterator that implements ONLY the basic protocol (next / next_back / exact
/// size_hint); every other method is std's default built on those.  GenericArrayIter overrides
/// nth, nth_back, fold, rfold, count, last, size_hint/len: feeding both through the same std
/// adaptor chain makes std's own adaptors the differential oracle for the overrides and for the
/// state they leave behind.
struct ModelIt<'a>(&'a mut VecDeque<u64>);
impl<'a> Iterator for ModelIt<'a> {
    type Item = u64;
    fn next(&mut self) -> Option<u64> {
        self.0.pop_front()
    }
    fn size_hint(&self) -> (usize, Option<usize>) {
        (self.0.len(), Some(self.0.len()))
    }
}
impl<'a> DoubleEndedIterator for ModelIt<'a> {
    fn next_back(&mut self) -> Option<u64> {
        self.0.pop_back()
    }
}
impl<'a> ExactSizeIterator for ModelIt<'a> {}

pub const ADAPT_KINDS: u8 = 22;

/// run adaptor chain `kind` with argument `k` over any iterator of keys
fn adapt<I: Iterator<Item = u64> + DoubleEndedIterator + ExactSizeIterator>(mut it: I, kind: u8, k: usize) -> Vec<u64> {
    let s = k % 3 + 1;
    let some = |o: Option<u64>| o.map_or(vec![u64::MAX], |x| vec![x]);
    let num = |o: Option<usize>| o.map_or(vec![u64::MAX], |x| vec![x as u64]);
    match kind {
        0 => it.by_ref().take(k).collect(),
        1 => some(it.by_ref().skip(k).next()),
        2 => it.by_ref().step_by(s).take(k).collect(),
        3 => it.by_ref().rev().take(k).collect(),
        4 => some(it.by_ref().rev().skip(k).next()),
        5 => {
            let mut c = 0;
            num(it.by_ref().position(|_| {
                c += 1;
                c > k
            }))
        }
        6 => {
            let mut c = 0;
            num(it.by_ref().rposition(|_| {
                c += 1;
                c > k
            }))
        }
        7 => {
            let r: Result<u64, u64> = it.by_ref().try_fold(0u64, |acc, x| if acc as usize == k { Err(x) } else { Ok(acc + 1) });
            vec![r.map_or_else(|x| x, |a| a ^ (1 << 63))]
        }
        8 => {
            let r: Result<u64, u64> = it.by_ref().try_rfold(0u64, |acc, x| if acc as usize == k { Err(x) } else { Ok(acc + 1) });
            vec![r.map_or_else(|x| x, |a| a ^ (1 << 63))]
        }
        9 => some(it.by_ref().take(k).reduce(|a, b| a.wrapping_mul(31).wrapping_add(b))),
        10 => it.by_ref().zip(0..k).map(|(x, _)| x).collect(),
        11 => {
            let mut p = it.by_ref().peekable();
            let mut out = vec![];
            for _ in 0..k.min(3) {
                out.extend(p.next());
            }
            out.extend(p.peek().copied()); // the peeked element is lost with the adaptor
            out
        }
        12 => it.by_ref().rev().step_by(s).take(k).collect(),
        13 => it.by_ref().skip(k).rev().take(2).collect(), // Skip's back half trusts len()
        14 => it.by_ref().take(k).rev().collect(),         // Take's back half uses len() and nth_back
        15 => it.by_ref().enumerate().rev().take(k).map(|(i, x)| x ^ ((i as u64) << 48)).collect(), // indices come from len()
        16 => some(it.by_ref().take(k).last()),
        17 => num(Some(it.by_ref().skip(k).count())),
        18 => some(it.by_ref().take(k + 1).max_by_key(|x| x.rotate_left(17))),
        19 => it.by_ref().skip(1).step_by(s).rev().take(k).collect(), // StepBy's back half computes with len()
        20 => {
            let (a, b): (Vec<u64>, Vec<u64>) = it.by_ref().take(k + 2).partition(|x| x % 2 == 0);
            a.into_iter().chain(b).collect()
        }
        _ => {
            // chunks of the remaining elements taken alternately from both ends through nth / nth_back
            let mut out = vec![];
            out.extend(it.by_ref().nth(k % 2));
            out.extend(it.by_ref().rev().nth(k % 3));
            out.extend(it.by_ref().skip(k % 2).step_by(2).next());
            out
        }
    }
}

/// Apply a non-consuming operation to the iterator and the model.
fn step<E: Elem, N: ArrayLength>(l: &mut Live<E, N>, op: Op) -> Result<(), String> {
    match op {
        Op::Next => {
            let r = l.it.next();
            let want = l.model.pop_front();
            if key_opt(&r).is_some() != want.is_some() || (E::KEYED && key_opt(&r) != want) {
                return Err(format!("ReturnMismatch: next {:x?} != {:x?}", key_opt(&r), want));
            }
        }
        Op::NextBack => {
            let r = l.it.next_back();
            let want = l.model.pop_back();
            if key_opt(&r).is_some() != want.is_some() || (E::KEYED && key_opt(&r) != want) {
                return Err(format!("ReturnMismatch: next_back {:x?} != {:x?}", key_opt(&r), want));
            }
        }
        Op::Nth(n) => {
            let r = l.it.nth(n);
            let want = model_nth(&mut l.model, n);
            if key_opt(&r).is_some() != want.is_some() || (E::KEYED && key_opt(&r) != want) {
                return Err(format!("ReturnMismatch: nth({n}) {:x?} != {:x?}", key_opt(&r), want));
            }
        }
        Op::NthBack(n) => {
            let r = l.it.nth_back(n);
            let want = model_nth_back(&mut l.model, n);
            if key_opt(&r).is_some() != want.is_some() || (E::KEYED && key_opt(&r) != want) {
                return Err(format!("ReturnMismatch: nth_back({n}) {:x?} != {:x?}", key_opt(&r), want));
            }
        }
        Op::Len | Op::AsSlice => {}
        Op::Adapt(kind, k) => {
            let got = adapt((&mut l.it).map(|e| e.key()), kind, k);
            let want = adapt(ModelIt(&mut l.model), kind, k);
            if got.len() != want.len() || (E::KEYED && got != want) {
                return Err(format!("AdaptorMismatch: adaptor chain {kind}({k}) yields {got:x?} on the iterator, {want:x?} on a queue"));
            }
        }
        Op::MutWrite(i) => {
            let s = l.it.as_mut_slice();
            if s.len() != l.model.len() {
                return Err(format!("StateMismatch: as_mut_slice len {} != {}", s.len(), l.model.len()));
            }
            if !s.is_empty() {
                let i = i % s.len();
                // replace one element through the mutable view; the old one is dropped here
                let newv = E::fresh();
                let k = newv.key();
                s[i] = newv;
                l.model[i] = k;
                l.all.push(k);
                // and swap the ends
                let last = s.len() - 1;
                s.swap(0, last);
                l.model.swap(0, last);
            }
        }
        Op::Debug => {
            debug_check(l)?;
        }
        Op::PollsAfterExhaustion => {
            // drain, then the iterator must keep returning None
            while l.it.next().is_some() {
                if l.model.pop_front().is_none() {
                    return Err("ReturnMismatch: yielded more elements than the model holds".into());
                }
            }
            if !l.model.is_empty() {
                return Err(format!("ReturnMismatch: stopped with {} elements to come", l.model.len()));
            }
            for round in 0..3 {
                if l.it.next().is_some() || l.it.next_back().is_some() || l.it.nth(0).is_some() || l.it.nth_back(0).is_some()
                    || l.it.nth(usize::MAX).is_some() || l.it.nth_back(1).is_some()
                {
                    return Err(format!("NotFused: non-None after exhaustion (round {round})"));
                }
                if l.it.len() != 0 || !l.it.as_slice().is_empty() {
                    return Err("NotFused: len != 0 after exhaustion".into());
                }
            }
        }
        _ => unreachable!("consuming op passed to step"),
    }
    check_state(l)
}

trait DebugMaybe {
    fn dbg(&self) -> Option<(String, String, String)>;
}

fn debug_check<E: Elem, N: ArrayLength>(l: &Live<E, N>) -> Result<(), String> {
    // Only Tok has an id-bearing Debug; handled by the specialised caller below
    let _ = l;
    Ok(())
}

fn debug_check_tok<N: ArrayLength>(l: &Live<Tok, N>) -> Result<(), String> {
    let s = format!("{:?}", l.it);
    let want = format!("{:?}", l.it.as_slice());
    if !s.contains(&want) {
        return Err(format!("DebugMismatch: {s:?} does not contain {want:?}"));
    }
    let pretty = format!("{:#?}", l.it);
    let mut pos = 0usize;
    for id in &l.model {
        let needle = format!("T{:x}", id);
        match pretty[pos..].find(&needle) {
            Some(p) => pos += p + needle.len(),
            None => return Err(format!("DebugMismatch: {{:#?}} misses or misorders remaining element {needle}")),
        }
    }
    for id in &l.all {
        if !l.model.contains(id) {
            let needle = format!("T{:x}", id);
            // ids are 64-bit hashes; a longer id containing this one as a substring is
            // astronomically unlikely, but guard by checking the delimiter after it
            for (i, _) in s.match_indices(&needle) {
                let after = s[i + needle.len()..].chars().next();
                if !matches!(after, Some(c) if c.is_ascii_hexdigit()) {
                    return Err(format!("DebugMismatch: shows {needle}, which is not among the remaining elements"));
                }
            }
        }
    }
    Ok(())
}

/// Apply a consuming operation; everything is dropped afterwards.
fn consume<E: Elem + Clone, N: ArrayLength>(mut l: Live<E, N>, op: Op) -> Result<(), String> {
    let want: Vec<u64> = l.model.iter().copied().collect();
    match op {
        Op::Fold => {
            let got = l.it.fold(Vec::new(), |mut a, x| {
                a.push(x.key());
                a
            });
            if got.len() != want.len() || (E::KEYED && got != want) {
                return Err(format!("ReturnMismatch: fold visited {got:x?}, expected {want:x?}"));
            }
        }
        Op::RFold => {
            let got = l.it.rfold(Vec::new(), |mut a, x| {
                a.push(x.key());
                a
            });
            let mut w = want.clone();
            w.reverse();
            if got.len() != w.len() || (E::KEYED && got != w) {
                return Err(format!("ReturnMismatch: rfold visited {got:x?}, expected {w:x?}"));
            }
        }
        Op::Count => {
            let c = l.it.count();
            if c != want.len() {
                return Err(format!("ReturnMismatch: count {c} != {}", want.len()));
            }
        }
        Op::Last => {
            let r = l.it.last();
            let w = want.last().copied();
            if key_opt(&r).is_some() != w.is_some() || (E::KEYED && key_opt(&r) != w) {
                return Err(format!("ReturnMismatch: last {:x?} != {:x?}", key_opt(&r), w));
            }
        }
        Op::DropIt => drop(l.it),
        Op::ForLoop => {
            let mut got = Vec::new();
            for x in l.it {
                got.push(x.key());
            }
            if got.len() != want.len() || (E::KEYED && got != want) {
                return Err(format!("ReturnMismatch: for-loop visited {got:x?}, expected {want:x?}"));
            }
        }
        Op::RevCollect => {
            let got: Vec<u64> = l.it.rev().map(|x| x.key()).collect();
            let mut w = want.clone();
            w.reverse();
            if got.len() != w.len() || (E::KEYED && got != w) {
                return Err(format!("ReturnMismatch: rev() visited {got:x?}, expected {w:x?}"));
            }
        }
        Op::Clone => {
            let c = l.it.clone();
            // the clone yields elements equal in number/order; identities are fresh clones,
            // so compare through the ledger's clone relation: the k-th clone came from the k-th original
            let orig_before: Vec<u64> = l.it.as_slice().iter().map(|e| e.key()).collect();
            if c.len() != want.len() || c.as_slice().len() != want.len() {
                return Err(format!("CloneMismatch: clone has {} elements, original {}", c.len(), want.len()));
            }
            if E::KEYED && orig_before != want {
                return Err("CloneMismatch: cloning disturbed the original".into());
            }
            check_state(&l)?;
            // drive both to the end, alternately from both sides
            let mut cl = Live::<E, N> { it: c, model: (0..want.len() as u64).collect(), all: vec![] };
            let mut turn = 0;
            loop {
                let (a, b) = if turn % 2 == 0 { (l.it.next(), cl.it.next()) } else { (l.it.next_back(), cl.it.next_back()) };
                let wa = if turn % 2 == 0 { l.model.pop_front() } else { l.model.pop_back() };
                if key_opt(&a).is_some() != wa.is_some() || (E::KEYED && key_opt(&a) != wa) {
                    return Err(format!("CloneMismatch: original yields {:x?}, expected {:x?} after clone", key_opt(&a), wa));
                }
                if a.is_some() != b.is_some() {
                    return Err("CloneMismatch: clone and original disagree on when they end".into());
                }
                if a.is_none() {
                    break;
                }
                turn += 1;
            }
            let _ = &mut cl;
        }
        _ => unreachable!(),
    }
    Ok(())
}

/// For Tok the clone relation is checkable by identity: clone k must be a clone of remaining element k.
fn clone_identity_check<N: ArrayLength>(f: usize, b: usize) -> Result<(), String> {
    let l = fresh::<Tok, N>(f, b)?;
    let c = l.it.clone();
    let orig: Vec<u64> = l.it.as_slice().iter().map(|e| e.raw_id()).collect();
    let cl: Vec<u64> = c.as_slice().iter().map(|e| e.raw_id()).collect();
    if orig.len() != cl.len() {
        return Err(format!("CloneMismatch: {} vs {}", orig.len(), cl.len()));
    }
    // creation order in the ledger: clone ordinals ascend in slice order
    let ords: Vec<u32> = cl.iter().map(|id| ledger::ordinal_of(*id).unwrap_or(u32::MAX)).collect();
    for w in ords.windows(2) {
        if w[0] >= w[1] {
            return Err(format!("CloneMismatch: clones not made in index order {ords:?}"));
        }
    }
    for id in &cl {
        if orig.contains(id) {
            return Err("CloneMismatch: clone shares an element identity with the original".into());
        }
    }
    drop(c);
    drop(l);
    Ok(())
}

/// No drop glue, but Clone is not a bit copy (it bumps a generation and logs):
/// a cloned iterator must hold what `[T; N]::into_iter().clone()` holds.
#[derive(Debug, PartialEq)]
struct Gen {
    v: u32,
    generation: u32,
}
thread_local! {
    static GEN_CLONES: std::cell::Cell<u64> = const { std::cell::Cell::new(0) };
}
impl Clone for Gen {
    fn clone(&self) -> Gen {
        GEN_CLONES.with(|c| c.set(c.get() + 1));
        Gen { v: self.v, generation: self.generation + 1 }
    }
}

/// `dst.clone_from(&src)` for every position of dst: afterwards dst must hold what a clone of
/// src holds (and src must be undisturbed), whatever dst had consumed before
fn clone_from_case<E: Elem + Clone, N: ArrayLength>(f: usize, b: usize, df: usize, db: usize) -> Result<(), String> {
    let src = fresh::<E, N>(f, b)?;
    let mut dst = fresh::<E, N>(df, db)?;
    dst.it.clone_from(&src.it);
    if dst.it.len() != src.model.len() || dst.it.as_slice().len() != src.model.len() {
        return Err(format!("CloneMismatch: after clone_from dst has {} elements, src has {}", dst.it.len(), src.model.len()));
    }
    check_state(&src)?;
    // drive both to the end from alternating sides; they must agree on when they end
    let mut d = dst.it;
    let mut s = src.it;
    let mut turn = 0;
    loop {
        let (a, b2) = if turn % 3 == 0 { (s.next_back(), d.next_back()) } else { (s.next(), d.next()) };
        if a.is_some() != b2.is_some() {
            return Err("CloneMismatch: clone_from target and source disagree on their length when consumed".into());
        }
        if a.is_none() {
            break;
        }
        turn += 1;
    }
    if d.next().is_some() || d.next_back().is_some() || d.len() != 0 {
        return Err("NotFused: clone_from target not exhausted with its source".into());
    }
    Ok(())
}

/// with plain values the contents can be compared directly
fn clone_from_values<N: ArrayLength>(f: usize, b: usize, df: usize, db: usize) -> Result<(), String> {
    let n = N::USIZE;
    let mk = |base: u32, f: usize, b: usize| {
        let mut it = GA::<u32, N>::generate(|i| base + i as u32).into_iter();
        for _ in 0..f {
            it.next();
        }
        for _ in 0..(n - b) {
            it.next_back();
        }
        it
    };
    let src = mk(100, f, b);
    let mut dst = mk(500, df, db);
    dst.clone_from(&src);
    if dst.as_slice() != src.as_slice() {
        return Err(format!("CloneMismatch: clone_from gives {:?}, source holds {:?}", dst.as_slice(), src.as_slice()));
    }
    let mut o: Option<GenericArrayIter<u32, N>> = Some(mk(900, df, db));
    o.clone_from(&Some(src.clone()));
    if o.as_ref().map(|i| i.as_slice().to_vec()) != Some(src.as_slice().to_vec()) {
        return Err("CloneMismatch: Option::clone_from".into());
    }
    let a: Vec<u32> = dst.collect();
    let b2: Vec<u32> = src.collect();
    if a != b2 {
        return Err(format!("CloneMismatch: clone_from target yields {a:?}, source {b2:?}"));
    }
    Ok(())
}

fn gen_clone_twin<N: ArrayLength, const K: usize>(f: usize, b: usize) -> Result<(), String>
where
    generic_array::typenum::Const<K>: generic_array::IntoArrayLength<ArrayLength = N>,
{
    let nat: [Gen; K] = core::array::from_fn(|i| Gen { v: i as u32 * 3 + 1, generation: 0 });
    let ga: GA<Gen, N> = GA::from_array(core::array::from_fn(|i| Gen { v: i as u32 * 3 + 1, generation: 0 }));
    let (mut a, mut g) = (nat.into_iter(), ga.into_iter());
    for _ in 0..f {
        a.next();
        g.next();
    }
    for _ in 0..(K - b) {
        a.next_back();
        g.next_back();
    }
    GEN_CLONES.with(|c| c.set(0));
    let ac = a.clone();
    let native_calls = GEN_CLONES.with(|c| c.replace(0));
    let gc = g.clone();
    let ga_calls = GEN_CLONES.with(|c| c.get());
    if gc.as_slice() != ac.as_slice() {
        return Err(format!("CloneMismatch: cloned iterator holds {:?}, [T;N]::into_iter().clone() holds {:?}", gc.as_slice(), ac.as_slice()));
    }
    if ga_calls != native_calls {
        return Err(format!("CloneMismatch: T::clone called {ga_calls} times, the native array iterator calls it {native_calls} times"));
    }
    if g.as_slice() != a.as_slice() {
        return Err("CloneMismatch: cloning disturbed the original".into());
    }
    Ok(())
}

// ------------------------------------------------------------------ native-array twin

fn native_at<const K: usize>(ids: &[u64], f: usize, b: usize) -> core::array::IntoIter<u64, K> {
    let arr: [u64; K] = core::array::from_fn(|i| ids[i]);
    let mut it = arr.into_iter();
    for _ in 0..f {
        it.next();
    }
    for _ in 0..(K - b) {
        it.next_back();
    }
    it
}

/// Same op on `[u64; K]::into_iter()` and on the GenericArray iterator (Tok ids).
fn twin_case<N: ArrayLength, const K: usize>(f: usize, b: usize, op: Op) -> Result<(), String> {
    let mut l = fresh::<Tok, N>(f, b)?;
    let mut nat = native_at::<K>(&l.all, f, b);
    let ret_eq = |a: Option<u64>, b: Option<u64>, what: &str| -> Result<(), String> {
        if a != b {
            Err(format!("ReturnMismatch(native array): {what} gives {a:x?}, [T;N]::into_iter gives {b:x?}"))
        } else {
            Ok(())
        }
    };
    match op {
        Op::Next => ret_eq(key_opt(&l.it.next()), nat.next(), "next")?,
        Op::NextBack => ret_eq(key_opt(&l.it.next_back()), nat.next_back(), "next_back")?,
        Op::Nth(n) => ret_eq(key_opt(&l.it.nth(n)), nat.nth(n), "nth")?,
        Op::NthBack(n) => ret_eq(key_opt(&l.it.nth_back(n)), nat.nth_back(n), "nth_back")?,
        Op::Count => {
            let a = l.it.count();
            let b2 = nat.count();
            if a != b2 {
                return Err(format!("ReturnMismatch(native array): count {a} vs {b2}"));
            }
            return Ok(());
        }
        Op::Last => {
            let a = key_opt(&l.it.last());
            return ret_eq(a, nat.last(), "last");
        }
        Op::Fold => {
            let a = l.it.fold(Vec::new(), |mut v, x| {
                v.push(x.key());
                v
            });
            let b2 = nat.fold(Vec::new(), |mut v, x| {
                v.push(x);
                v
            });
            if a != b2 {
                return Err("ReturnMismatch(native array): fold order".into());
            }
            return Ok(());
        }
        Op::RFold => {
            let a = l.it.rfold(Vec::new(), |mut v, x| {
                v.push(x.key());
                v
            });
            let b2 = nat.rfold(Vec::new(), |mut v, x| {
                v.push(x);
                v
            });
            if a != b2 {
                return Err("ReturnMismatch(native array): rfold order".into());
            }
            return Ok(());
        }
        _ => return Ok(()),
    }
    let rem: Vec<u64> = l.it.as_slice().iter().map(|e| e.key()).collect();
    if rem != nat.as_slice() {
        return Err(format!("StateMismatch(native array): remaining {rem:x?} vs {:x?}", nat.as_slice()));
    }
    if l.it.len() != nat.len() {
        return Err(format!("LenMismatch(native array): {} vs {}", l.it.len(), nat.len()));
    }
    Ok(())
}

// ------------------------------------------------------------------ part A

fn ops_for(len: usize) -> Vec<Op> {
    let mut v = vec![Op::Next, Op::NextBack, Op::Len, Op::AsSlice, Op::Debug, Op::PollsAfterExhaustion];
    // huge skip counts whose low bits look small (a narrowed cursor truncates instead of saturating)
    // next to the all-ones ones
    let huge: [usize; 9] = [usize::MAX, usize::MAX - 1, 1 << 32, (1 << 32) + 1, 3 << 32, (1 << 16) + 1, 1 << 16, (1 << 63) + 1, u32::MAX as usize + 2];
    for n in (0..=len + 2).chain(huge) {
        v.push(Op::Nth(n));
        v.push(Op::NthBack(n));
    }
    for i in 0..len.max(1) {
        v.push(Op::MutWrite(i));
    }
    for kind in 0..ADAPT_KINDS {
        for k in 0..=len + 1 {
            v.push(Op::Adapt(kind, k));
        }
    }
    v.extend([Op::Clone, Op::Fold, Op::RFold, Op::Count, Op::Last, Op::DropIt, Op::ForLoop, Op::RevCollect]);
    v
}

fn is_consuming(op: Op) -> bool {
    matches!(op, Op::Clone | Op::Fold | Op::RFold | Op::Count | Op::Last | Op::DropIt | Op::ForLoop | Op::RevCollect)
}

fn report(st: &mut Stats, flav: &str, op: Op, desc: &str, r: Result<(), String>) {
    if let Err(e) = r {
        let kind = e.split(':').next().unwrap_or("Mismatch").to_string();
        st.violation("C06", &format!("{}|{}|{}", op.name(), flav, kind), desc, &e);
    }
}

fn part_a<E: Elem + Clone, N: ArrayLength>(st: &mut Stats) {
    let n = N::USIZE;
    for f in 0..=n {
        for b in f..=n {
            let len = b - f;
            for op in ops_for(len) {
                let Some(desc) = st.select(|| format!("C06 {} A {} N={n} pos=({f},{b}) {op:?}", op.name(), E::NAME)) else { continue };
                ledger::begin_case();
                fault::reset();
                st.op(&format!("{} N={n}", op.name()));
                let r = vkit::catch(|| -> Result<(), String> {
                    let mut l = fresh::<E, N>(f, b)?;
                    if is_consuming(op) {
                        consume(l, op)
                    } else {
                        let r = step(&mut l, op);
                        // a second, different step from the successor state (state really is usable)
                        let r2 = if r.is_ok() { step(&mut l, Op::NextBack).and_then(|_| step(&mut l, Op::Next)) } else { Ok(()) };
                        drop(l);
                        r.and(r2)
                    }
                });
                let res = match r {
                    vkit::Caught::Returned(x) => x,
                    vkit::Caught::Injected(..) => Err("HarnessBug: injected panic".into()),
                    vkit::Caught::Other(m) => Err(format!("Panic: {m} ({})", fault::last_panic())),
                };
                report(st, E::NAME, op, &desc, res);
                st.judge_ledger("C06", &format!("{}|{}", op.name(), E::NAME), &desc, false);
                st.done(&desc, len > 0);
            }
        }
    }
}

fn part_a_tok<N: ArrayLength, const K: usize>(st: &mut Stats)
where
    generic_array::typenum::Const<K>: generic_array::IntoArrayLength<ArrayLength = N>,
{
    let n = N::USIZE;
    for f in 0..=n {
        for b in f..=n {
            let len = b - f;
            // Debug with identities, clone identity relation
            {
                let Some(desc) = st.select(|| format!("C06 clone A-gen Gen N={n} pos=({f},{b})")) else { continue };
                ledger::begin_case();
                let r = vkit::catch(|| gen_clone_twin::<N, K>(f, b));
                let res = match r {
                    vkit::Caught::Returned(x) => x,
                    vkit::Caught::Injected(..) => Err("HarnessBug: injected".into()),
                    vkit::Caught::Other(m) => Err(format!("Panic: {m}")),
                };
                report(st, "Gen(no-drop,non-bitcopy Clone)", Op::Clone, &desc, res);
                st.op("clone.gen_twin");
                st.done(&desc, len > 0);
            }
            // clone_from into a target at every position
            for df in 0..=n {
                for db in df..=n {
                    let Some(desc) = st.select(|| format!("C06 clone_from A Tok N={n} src=({f},{b}) dst=({df},{db})")) else { continue };
                    ledger::begin_case();
                    let r = vkit::catch(|| clone_from_case::<Tok, N>(f, b, df, db).and_then(|_| clone_from_values::<N>(f, b, df, db)));
                    let res = match r {
                        vkit::Caught::Returned(x) => x,
                        vkit::Caught::Injected(..) => Err("HarnessBug: injected".into()),
                        vkit::Caught::Other(m) => Err(format!("Panic: {m} ({})", fault::last_panic())),
                    };
                    if let Err(e) = res {
                        let kind = e.split(':').next().unwrap_or("Mismatch").to_string();
                        st.violation("C06", &format!("clone_from|Tok|{kind}"), &desc, &e);
                    }
                    st.judge_ledger("C06", "clone_from|Tok", &desc, false);
                    st.op("clone_from");
                    st.done(&desc, len > 0);
                }
            }
            for which in ["debug_ids", "clone_ids"] {
                let Some(desc) = st.select(|| format!("C06 {which} A Tok N={n} pos=({f},{b})")) else { continue };
                ledger::begin_case();
                let r = vkit::catch(|| -> Result<(), String> {
                    if which == "debug_ids" {
                        let l = fresh::<Tok, N>(f, b)?;
                        let r = debug_check_tok(&l);
                        drop(l);
                        r
                    } else {
                        clone_identity_check::<N>(f, b)
                    }
                });
                let res = match r {
                    vkit::Caught::Returned(x) => x,
                    vkit::Caught::Injected(..) => Err("HarnessBug: injected".into()),
                    vkit::Caught::Other(m) => Err(format!("Panic: {m}")),
                };
                let op = if which == "debug_ids" { Op::Debug } else { Op::Clone };
                report(st, "Tok", op, &desc, res);
                st.judge_ledger("C06", &format!("{}|Tok", op.name()), &desc, false);
                st.op(which);
                st.done(&desc, len > 0);
            }
            // native-array twin
            for op in ops_for(len) {
                if matches!(op, Op::Len | Op::AsSlice | Op::Debug | Op::MutWrite(_) | Op::Clone | Op::DropIt | Op::PollsAfterExhaustion | Op::ForLoop | Op::RevCollect) {
                    continue;
                }
                let Some(desc) = st.select(|| format!("C06 {} A-twin Tok N={n} pos=({f},{b}) {op:?}", op.name())) else { continue };
                ledger::begin_case();
                let r = vkit::catch(|| twin_case::<N, K>(f, b, op));
                let res = match r {
                    vkit::Caught::Returned(x) => x,
                    vkit::Caught::Injected(..) => Err("HarnessBug: injected".into()),
                    vkit::Caught::Other(m) => Err(format!("Panic: {m} ({})", fault::last_panic())),
                };
                report(st, "Tok", op, &desc, res);
                st.judge_ledger("C06", &format!("{}|Tok", op.name()), &desc, false);
                st.op(&format!("twin.{}", op.name()));
                st.done(&desc, len > 0);
            }
        }
    }
}

// ------------------------------------------------------------------ part B

fn part_b<E: Elem + Clone, N: ArrayLength>(st: &mut Stats, seed: u64, runs: u64) {
    let n = N::USIZE;
    for run in 0..runs {
        let Some(desc) = st.select(|| format!("C06 sequence B {} N={n} seed={seed} run={run}", E::NAME)) else { continue };
        ledger::begin_case();
        fault::reset();
        let mut rng = Rng::for_case(seed ^ (n as u64) << 32, run);
        let mut trace: Vec<String> = Vec::new();
        let r = vkit::catch(|| -> Result<(), String> {
            let mut lives: Vec<Live<E, N>> = vec![fresh::<E, N>(0, n)?];
            let steps = rng.range(5, 60);
            for _ in 0..steps {
                if lives.is_empty() {
                    break;
                }
                let i = rng.below(lives.len());
                let len = lives[i].model.len();
                let big = |rng: &mut Rng| -> usize {
                    match rng.below(11) {
                        0 => usize::MAX,
                        10 => [1usize << 32, (1 << 32) + 1, (5 << 32) + 2, (1 << 16) + 1, (1 << 63) + 1][rng.below(5)],
                        1 => len + rng.below(3),
                        2 => len,
                        _ => rng.below(len.max(1)).min(7 + rng.below(3)),
                    }
                };
                let choice = rng.below(100);
                let op = match choice {
                    0..=11 => Op::Next,
                    12..=23 => Op::NextBack,
                    24..=35 => Op::Adapt(rng.below(ADAPT_KINDS as usize) as u8, rng.below(len + 2)),
                    36..=49 => Op::Nth(big(&mut rng)),
                    50..=63 => Op::NthBack(big(&mut rng)),
                    64..=69 => Op::MutWrite(rng.below(len.max(1))),
                    70..=73 => Op::Len,
                    74..=83 => Op::Clone,
                    84..=86 => Op::Fold,
                    87..=89 => Op::RFold,
                    90..=91 => Op::Count,
                    92..=93 => Op::Last,
                    94..=95 => Op::DropIt,
                    96..=97 => Op::PollsAfterExhaustion,
                    _ => Op::RevCollect,
                };
                if trace.len() < 80 {
                    trace.push(format!("#{i}:{op:?}"));
                }
                match op {
                    Op::Clone if lives.len() < 4 => {
                        // clone-then-diverge: both continue independently
                        let c = lives[i].it.clone();
                        // model of the clone: we cannot know the clones' ids in advance; read them
                        let ids: Vec<u64> = c.as_slice().iter().map(|e| e.key()).collect();
                        if ids.len() != lives[i].model.len() {
                            return Err(format!("CloneMismatch: clone has {} elements, original {}", ids.len(), lives[i].model.len()));
                        }
                        check_state(&lives[i])?;
                        let all = ids.clone();
                        lives.push(Live { it: c, model: ids.into_iter().collect(), all });
                    }
                    Op::Clone => {}
                    o if is_consuming(o) => {
                        let l = lives.swap_remove(i);
                        consume(l, o)?;
                    }
                    o => step(&mut lives[i], o)?,
                }
            }
            drop(lives);
            Ok(())
        });
        let res = match r {
            vkit::Caught::Returned(x) => x,
            vkit::Caught::Injected(..) => Err("HarnessBug: injected".into()),
            vkit::Caught::Other(m) => Err(format!("Panic: {m} ({})", fault::last_panic())),
        };
        if let Err(e) = res {
            let kind = e.split(':').next().unwrap_or("Mismatch").to_string();
            st.violation("C06", &format!("sequence|{}|{}", E::NAME, kind), &desc, &format!("{e}; ops: {}", trace.join(" ")));
        }
        st.judge_ledger("C06", &format!("sequence|{}", E::NAME), &desc, false);
        st.count("partB.steps", trace.len() as u64);
        st.done(&desc, trace.len() > 3);
    }
}


// ------------------------------------------------------------------ part C: Debug with many elements left

/// Debug must show exactly the remaining elements however many there are: the output contains
/// the slice's own rendering of what is left (under the same flags), for positions near both
/// ends of long arrays.
fn part_c<N: ArrayLength>(st: &mut Stats) {
    let n = N::USIZE;
    let mut pos: Vec<(usize, usize)> = vec![(0, n), (1, n), (0, n.saturating_sub(1)), (n / 2, n), (0, n / 2), (n, n)];
    for k in [31usize, 32, 33, 34, 64, 65] {
        if k <= n {
            pos.push((0, k));
            pos.push((n - k, n));
        }
    }
    pos.sort();
    pos.dedup();
    for (f, b) in pos {
        if f > b {
            continue;
        }
        st.check_case("C06", "debug.long", "u32", || format!("C06 debug.long C u32 N={n} pos=({f},{b})"), b > f, || {
            let mut it = GA::<u32, N>::generate(|i| 1000 + 7 * i as u32).into_iter();
            for _ in 0..f {
                it.next();
            }
            for _ in 0..(n - b) {
                it.next_back();
            }
            let rest: Vec<u32> = it.as_slice().to_vec();
            let checks = [
                (format!("{:?}", it), format!("{:?}", &rest[..])),
                (format!("{:x?}", it), format!("{:x?}", &rest[..])),
                (format!("{:08?}", it), format!("{:08?}", &rest[..])),
            ];
            for (got, want) in checks {
                if !got.contains(&want) {
                    return Err(format!("DebugMismatch: {} elements remain; output ends {:?}, the slice's ends {:?}", rest.len(), &got[got.len().saturating_sub(40)..], &want[want.len().saturating_sub(40)..]));
                }
            }
            // pretty form: every remaining element on its own line, in order, nothing else numeric
            let pretty = format!("{:#?}", it);
            let nums: Vec<u32> = pretty.lines().filter_map(|l| l.trim().trim_end_matches(',').parse::<u32>().ok()).collect();
            if nums != rest {
                return Err(format!("DebugMismatch: {{:#?}} lists {} elements, {} remain", nums.len(), rest.len()));
            }
            if it.len() != rest.len() {
                return Err("LenMismatch: formatting disturbed the iterator".into());
            }
            Ok(())
        });
    }
}

macro_rules! lens_a {
    ($args:expr, $st:expr, [$($v:literal),*]) => {
        $( if $v <= $args.maxn {
            if $args.flavour_on("Tok") { part_a::<Tok, U<$v>>($st); part_a_tok::<U<$v>, $v>($st); }
            if $args.flavour_on("u32") { part_a::<u32, U<$v>>($st); }
            if $args.flavour_on("ZTok") { part_a::<ZTok, U<$v>>($st); }
            if $args.flavour_on("HeapTok") { part_a::<vkit::HeapTok, U<$v>>($st); }
            if $args.flavour_on("String") { part_a::<String, U<$v>>($st); }
        } )*
    };
}
macro_rules! lens_b {
    ($args:expr, $st:expr, $runs:expr, [$($v:literal),*]) => {
        $( if $v <= $args.maxn {
            if $args.flavour_on("Tok") { part_b::<Tok, U<$v>>($st, $args.seed, $runs); }
            if $args.flavour_on("HeapTok") { part_b::<vkit::HeapTok, U<$v>>($st, $args.seed, $runs / 4 + 1); }
            if $args.flavour_on("ZTok") { part_b::<ZTok, U<$v>>($st, $args.seed, $runs / 4 + 1); }
        } )*
    };
}

fn main() {
    let args = Args::parse();
    let mut st = Stats::new("iterq", &args);
    if args.part_on("A") {
        lens_a!(args, &mut st, [0, 1, 2, 3, 4, 5, 6, 7, 8]);
    }
    if args.part_on("C") && args.flavour_on("u32") {
        part_c::<U<0>>(&mut st);
        part_c::<U<1>>(&mut st);
        part_c::<U<9>>(&mut st);
        part_c::<U<32>>(&mut st);
        part_c::<U<33>>(&mut st);
        part_c::<U<40>>(&mut st);
        part_c::<U<100>>(&mut st);
        part_c::<U<1024>>(&mut st);
        part_c::<generic_array::typenum::Sum<generic_array::typenum::U1024, generic_array::typenum::U1>>(&mut st);
        part_c::<generic_array::typenum::U4096>(&mut st);
    }
    if args.part_on("B") {
        let runs = args.budget.unwrap_or(if args.thorough() { 20000 } else { 300 });
        lens_b!(args, &mut st, runs, [3, 8, 9, 16, 17, 33, 100]);
        lens_b!(args, &mut st, runs / 20 + 1, [1024]);
    }
    st.finish();
}
