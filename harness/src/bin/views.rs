//! views — C02: borrowed views alias the array's storage; reinterpretation of a
//! slice needs exactly N elements; by-value conversions keep positions.
//!
//! Address / extent checks: for every returned reference, start address,
//! element count and `size_of_val` against arithmetic on the source; write through
//! every mutable view and read through all the others, with canaries on both
//! sides of the storage.

use core::borrow::{Borrow, BorrowMut};
use generic_array::sequence::GenericSequence;
use generic_array::{GenericArray, LengthError};
use vkit::typenum::U;
use vkit::{Args, Caught, Elem, HeapTok, Stats, Tok, Tok24, ZTok};

type GA<E, N> = GenericArray<E, N>;

const CANARY: u64 = 0xC0DE_CAFE_F00D_BEEF;

#[repr(C)]
struct Frame<A> {
    pre: [u64; 4],
    a: A,
    post: [u64; 4],
}

fn keys<E: Elem>(s: &[E]) -> Vec<u64> {
    s.iter().map(|e| e.key()).collect()
}

fn same<E: Elem>(what: &str, got: &[u64], want: &[u64]) -> Result<(), String> {
    if got.len() != want.len() {
        return Err(format!("CountMismatch: {what}: {} elements, expected {}", got.len(), want.len()));
    }
    if E::KEYED && got != want {
        return Err(format!("OrderMismatch: {what}: {got:x?} != {want:x?}"));
    }
    Ok(())
}

fn addr<T: ?Sized>(r: &T) -> usize {
    r as *const T as *const u8 as usize
}

/// a view must start at `base`, hold `n` elements and span n * size_of::<E>() bytes
fn extent<E>(what: &str, s: &[E], base: usize, n: usize) -> Result<(), String> {
    if s.as_ptr() as usize != base {
        return Err(format!("AddressMismatch: {what} starts at {:#x}, the array at {base:#x}", s.as_ptr() as usize));
    }
    if s.len() != n {
        return Err(format!("CountMismatch: {what} has {} elements, N = {n}", s.len()));
    }
    if core::mem::size_of_val(s) != n * core::mem::size_of::<E>() {
        return Err(format!("ExtentMismatch: {what} spans {} bytes", core::mem::size_of_val(s)));
    }
    Ok(())
}

trait ViewLen {
    fn run<E: Elem>(st: &mut Stats, args: &Args);
}
struct L<const K: usize>;

fn slice_lengths(n: usize) -> Vec<usize> {
    let mut v: Vec<usize> = if n <= 8 { (0..=n + 3).collect() } else { vec![0, n - 2, n - 1, n, n + 1, n + 2] };
    v.push(2 * n);
    v.push(2 * n + 1);
    v.sort();
    v.dedup();
    v
}

macro_rules! impl_viewlen {
    ($($n:literal),*) => { $(
        impl ViewLen for L<$n> {
            fn run<E: Elem>(st: &mut Stats, _args: &Args) {
                type N = U<$n>;
                const K: usize = $n;
                let n: usize = $n;
                let sz = core::mem::size_of::<E>();

                // ---------------------------------------------------- 1. length-check matrix
                for l in slice_lengths(n) {
                    st.check_case("C02", "from_slice", E::NAME, || format!("C02 from_slice {} N={n} L={l}", E::NAME), l > 0, || {
                        // backing buffer with two guard elements on each side
                        let mut buf: Vec<E> = (0..l + 4).map(|_| E::fresh()).collect();
                        let want = keys(&buf[2..2 + l]);
                        let guards = [buf[0].key(), buf[1].key(), buf[l + 2].key(), buf[l + 3].key()];
                        let base = buf[2..].as_ptr() as usize;
                        let ok_expected = l == n;
                        {
                            let src: &[E] = &buf[2..2 + l];
                            // panicking form
                            match vkit::catch(|| GA::<E, N>::from_slice(src)) {
                                Caught::Returned(r) => {
                                    if !ok_expected {
                                        return Err(format!("LengthAccepted: from_slice accepted a slice of length {l} for N = {n}"));
                                    }
                                    extent::<E>("from_slice", r.as_slice(), base, n)?;
                                    same::<E>("from_slice", &keys(r), &want)?;
                                }
                                Caught::Other(_) => {
                                    if ok_expected {
                                        return Err(format!("LengthRejected: from_slice panicked on a slice of exactly N = {n}"));
                                    }
                                }
                                Caught::Injected(..) => return Err("HarnessBug: injected".into()),
                            }
                            let r: Result<&GA<E, N>, LengthError> = GA::<E, N>::try_from_slice(src);
                            match r {
                                Ok(r) => {
                                    if !ok_expected {
                                        return Err(format!("LengthAccepted: try_from_slice accepted length {l} for N = {n}"));
                                    }
                                    extent::<E>("try_from_slice", r.as_slice(), base, n)?;
                                }
                                Err(LengthError) => {
                                    if ok_expected {
                                        return Err(format!("LengthRejected: try_from_slice refused length N = {n}"));
                                    }
                                }
                            }
                            let r: Result<&GA<E, N>, LengthError> = <&GA<E, N>>::try_from(src);
                            match r {
                                Ok(r) => {
                                    if !ok_expected {
                                        return Err(format!("LengthAccepted: TryFrom<&[T]> accepted length {l} for N = {n}"));
                                    }
                                    extent::<E>("TryFrom<&[T]>", r.as_slice(), base, n)?;
                                    same::<E>("TryFrom<&[T]>", &keys(r), &want)?;
                                }
                                Err(LengthError) => {
                                    if ok_expected {
                                        return Err(format!("LengthRejected: TryFrom<&[T]> refused length N = {n}"));
                                    }
                                }
                            }
                        }
                        // mutable forms; on success write through the result and read the buffer
                        let mut want = want;
                        for form in 0..3 {
                            let fname = ["from_mut_slice", "try_from_mut_slice", "TryFrom<&mut [T]>"][form];
                            let src: &mut [E] = &mut buf[2..2 + l];
                            let got: Option<&mut GA<E, N>> = match form {
                                0 => match vkit::catch(move || GA::<E, N>::from_mut_slice(src)) {
                                    Caught::Returned(r) => Some(r),
                                    Caught::Other(_) => None,
                                    Caught::Injected(..) => return Err("HarnessBug: injected".into()),
                                },
                                1 => GA::<E, N>::try_from_mut_slice(src).ok(),
                                _ => <&mut GA<E, N>>::try_from(src).ok(),
                            };
                            match got {
                                Some(r) => {
                                    if !ok_expected {
                                        return Err(format!("LengthAccepted: {fname} accepted length {l} for N = {n}"));
                                    }
                                    extent::<E>(fname, r.as_slice(), base, n)?;
                                    if n > 0 {
                                        let i = (form * 7 + 1) % n;
                                        let x = E::fresh();
                                        want[i] = x.key();
                                        r.as_mut_slice()[i] = x;
                                    }
                                }
                                None => {
                                    if ok_expected {
                                        return Err(format!("LengthRejected: {fname} refused length N = {n}"));
                                    }
                                }
                            }
                            same::<E>(&format!("{fname} write-through"), &keys(&buf[2..2 + l]), &want)?;
                        }
                        let guards2 = [buf[0].key(), buf[1].key(), buf[l + 2].key(), buf[l + 3].key()];
                        if E::KEYED && guards != guards2 {
                            return Err("GuardClobbered: an element next to the source slice was overwritten".into());
                        }
                        Ok(())
                    });
                }

                // ---------------------------------------------------- 2. views of an owned array
                st.check_case("C02", "views", E::NAME, || format!("C02 views {} N={n}", E::NAME), n > 0, || {
                    let mut f = Frame { pre: [CANARY; 4], a: GA::<E, N>::generate(|_| E::fresh()), post: [CANARY; 4] };
                    let base = addr(&f.a);
                    let want = keys(f.a.as_slice());
                    if core::mem::size_of_val(&f.a) != n * sz {
                        return Err(format!("ExtentMismatch: size_of_val(array) = {}", core::mem::size_of_val(&f.a)));
                    }
                    extent::<E>("as_slice", f.a.as_slice(), base, n)?;
                    extent::<E>("Deref", &f.a[..], base, n)?;
                    extent::<E>("AsRef<[T]>", AsRef::<[E]>::as_ref(&f.a), base, n)?;
                    extent::<E>("Borrow<[T]>", Borrow::<[E]>::borrow(&f.a), base, n)?;
                    {
                        let r: &[E; K] = AsRef::<[E; K]>::as_ref(&f.a);
                        extent::<E>("AsRef<[T;N]>", &r[..], base, n)?;
                        same::<E>("AsRef<[T;N]>", &keys(&r[..]), &want)?;
                        // and back: &[T;N] -> &GenericArray
                        let back: &GA<E, N> = r.into();
                        extent::<E>("From<&[T;N]>", back.as_slice(), base, n)?;
                    }
                    same::<E>("as_slice", &keys(f.a.as_slice()), &want)?;
                    same::<E>("(&a).into_iter()", &(&f.a).into_iter().map(|e| e.key()).collect::<Vec<_>>(), &want)?;
                    same::<E>("iter()", &f.a.iter().map(|e| e.key()).collect::<Vec<_>>(), &want)?;
                    // first element address through by-reference iteration
                    if let Some(first) = (&f.a).into_iter().next() {
                        if addr(first) != base {
                            return Err("AddressMismatch: by-reference iteration does not start at the array".into());
                        }
                    }
                    // ------------------------------------------------ write-through round
                    let mut want = want;
                    let idx: Vec<usize> = if n <= 64 { (0..n).collect() } else { vec![0, 1, n / 3, n / 2, n - 2, n - 1] };
                    for view in 0..8usize {
                        for &i in &idx {
                            let x = E::fresh();
                            let k = x.key();
                            match view {
                                0 => {
                                    let s = f.a.as_mut_slice();
                                    extent::<E>("as_mut_slice", s, base, n)?;
                                    s[i] = x;
                                }
                                1 => {
                                    let s: &mut [E] = &mut f.a[..];
                                    extent::<E>("DerefMut", s, base, n)?;
                                    s[i] = x;
                                }
                                2 => {
                                    let s: &mut [E] = AsMut::<[E]>::as_mut(&mut f.a);
                                    extent::<E>("AsMut<[T]>", s, base, n)?;
                                    s[i] = x;
                                }
                                3 => {
                                    let s: &mut [E] = BorrowMut::<[E]>::borrow_mut(&mut f.a);
                                    extent::<E>("BorrowMut<[T]>", s, base, n)?;
                                    s[i] = x;
                                }
                                4 => {
                                    let s: &mut [E; K] = AsMut::<[E; K]>::as_mut(&mut f.a);
                                    extent::<E>("AsMut<[T;N]>", &s[..], base, n)?;
                                    s[i] = x;
                                }
                                5 => {
                                    let e = (&mut f.a).into_iter().nth(i).ok_or("CountMismatch: (&mut a).into_iter() too short")?;
                                    if addr(e) != base + i * sz {
                                        return Err(format!("AddressMismatch: iter_mut element {i} at +{}", addr(e).wrapping_sub(base)));
                                    }
                                    *e = x;
                                }
                                6 => {
                                    // &mut [T;N] -> &mut GenericArray -> slice
                                    let s: &mut [E; K] = AsMut::<[E; K]>::as_mut(&mut f.a);
                                    let g: &mut GA<E, N> = s.into();
                                    extent::<E>("From<&mut [T;N]>", g.as_slice(), base, n)?;
                                    g[i] = x;
                                }
                                _ => {
                                    let g: &mut GA<E, N> = GA::<E, N>::from_mut_slice(f.a.as_mut_slice());
                                    g[i] = x;
                                }
                            }
                            want[i] = k;
                        }
                        // read back through every shared view
                        same::<E>(&format!("write view {view} / as_slice"), &keys(f.a.as_slice()), &want)?;
                        same::<E>(&format!("write view {view} / AsRef<[T;N]>"), &keys(&AsRef::<[E; K]>::as_ref(&f.a)[..]), &want)?;
                        same::<E>(&format!("write view {view} / iter"), &f.a.iter().map(|e| e.key()).collect::<Vec<_>>(), &want)?;
                        same::<E>(&format!("write view {view} / Borrow"), &keys(Borrow::<[E]>::borrow(&f.a)), &want)?;
                    }
                    if f.pre != [CANARY; 4] || f.post != [CANARY; 4] {
                        return Err("GuardClobbered: memory next to the array was overwritten through a view".into());
                    }
                    Ok(())
                });

                // ---------------------------------------------------- 3. by-value <-> [T; N]
                st.check_case("C02", "by_value_array", E::NAME, || format!("C02 by_value_array {} N={n}", E::NAME), n > 0, || {
                    let nat: [E; K] = core::array::from_fn(|_| E::fresh());
                    let want = keys(&nat);
                    let a: GA<E, N> = GA::from_array(nat);
                    same::<E>("from_array", &keys(&a), &want)?;
                    let nat: [E; K] = a.into_array();
                    same::<E>("into_array", &keys(&nat), &want)?;
                    let a: GA<E, N> = GA::from(nat);
                    same::<E>("From<[T;N]>", &keys(&a), &want)?;
                    let nat: [E; K] = a.into();
                    same::<E>("Into<[T;N]>", &keys(&nat), &want)?;
                    let a: GA<E, N> = nat.into();
                    let nat2 = <[E; K]>::from(a);
                    same::<E>("<[T;N]>::from", &keys(&nat2), &want)?;
                    Ok(())
                });
            }
        }
    )* };
}

impl_viewlen!(0, 1, 2, 3, 4, 5, 6, 7, 8, 9, 10, 11, 12, 13, 15, 16, 17, 24, 31, 32, 33, 63, 64, 65, 100, 127, 128, 129, 255, 256, 257, 511, 512, 513, 1000, 1023, 1024);

// ------------------------------------------------------------------ tuples 1..=12

macro_rules! tuple_case {
    ($st:expr, $E:ty, $n:literal, ($($t:ident),*)) => {{
        $st.check_case("C02", "tuple", <$E as Elem>::NAME, || format!("C02 tuple {} N={}", <$E as Elem>::NAME, $n), true, || {
            $( let $t = <$E as Elem>::fresh(); )*
            let want: Vec<u64> = vec![$($t.key()),*];
            let a: GA<$E, U<$n>> = ($($t,)*).into();
            same::<$E>("From<tuple>", &keys(&a), &want)?;
            let ($($t,)*) = a.into();
            let got: Vec<u64> = vec![$($t.key()),*];
            same::<$E>("Into<tuple>", &got, &want)?;
            // and once more through the explicit From paths
            let a = GA::<$E, U<$n>>::from(($($t,)*));
            same::<$E>("GenericArray::from(tuple)", &keys(&a), &want)?;
            Ok(())
        });
    }};
}

fn tuples<E: Elem>(st: &mut Stats) {
    tuple_case!(st, E, 1, (a));
    tuple_case!(st, E, 2, (a, b));
    tuple_case!(st, E, 3, (a, b, c));
    tuple_case!(st, E, 4, (a, b, c, d));
    tuple_case!(st, E, 5, (a, b, c, d, e));
    tuple_case!(st, E, 6, (a, b, c, d, e, f));
    tuple_case!(st, E, 7, (a, b, c, d, e, f, g));
    tuple_case!(st, E, 8, (a, b, c, d, e, f, g, h));
    tuple_case!(st, E, 9, (a, b, c, d, e, f, g, h, i));
    tuple_case!(st, E, 10, (a, b, c, d, e, f, g, h, i, j));
    tuple_case!(st, E, 11, (a, b, c, d, e, f, g, h, i, j, k));
    tuple_case!(st, E, 12, (a, b, c, d, e, f, g, h, i, j, k, l));
}

macro_rules! run_lens {
    ($st:expr, $args:expr, $E:ty, [$($n:literal),*]) => { $( if $n <= $args.maxn { <L<$n> as ViewLen>::run::<$E>($st, &$args); } )* };
}

fn all_for<E: Elem>(st: &mut Stats, args: &Args) {
    run_lens!(st, args, E, [0, 1, 2, 3, 4, 5, 6, 7, 8, 9, 10, 11, 12, 13, 15, 16, 17, 24, 31, 32, 33, 63, 64, 65, 100, 127, 128, 129, 255, 256, 257]);
    if args.thorough() || args.kv.contains_key("big") {
        run_lens!(st, args, E, [511, 512, 513, 1000, 1023, 1024]);
    }
    if args.maxn >= 12 {
        tuples::<E>(st);
    }
}

fn main() {
    let args = Args::parse();
    let mut st = Stats::new("views", &args);
    if args.flavour_on("u8") {
        all_for::<u8>(&mut st, &args);
    }
    if args.flavour_on("u32") {
        all_for::<u32>(&mut st, &args);
    }
    if args.flavour_on("Tok") {
        all_for::<Tok>(&mut st, &args);
    }
    if args.flavour_on("Tok24") {
        all_for::<Tok24>(&mut st, &args);
    }
    if args.flavour_on("ZTok") {
        all_for::<ZTok>(&mut st, &args);
    }
    if args.flavour_on("()") {
        all_for::<()>(&mut st, &args);
    }
    if args.flavour_on("HeapTok") {
        all_for::<HeapTok>(&mut st, &args);
    }
    st.finish();
}
