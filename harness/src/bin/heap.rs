//! heap — C15 (heap interop: contents, exact length, allocation reuse, no stack
//! trip) and C16 (every heap block requested validly, freed once with its layout,
//! never leaked; allocation failure ends through the standard path).
//!
//! Every case runs inside a recording-allocator window.  Three fault dimensions:
//!   * plain:       allocator rules audited, live set empty at close;
//!   * panic:       a panic at every closure / iterator call index, then audit;
//!   * alloc-fail:  for every allocation request k the operation performs, a child
//!                  process in which request k returns null; the child must either
//!                  finish or die through handle_alloc_error.
//!   * alloc-fail with an UNWINDING error path (nightly builds, cfg(vkit_nightly)): the same
//!                  children with `set_alloc_error_hook` installed to panic, as std permits
//!                  ("the hook may choose to panic or abort"): the operation is then torn down
//!                  by unwinding, and the allocator log must show no release of the null block
//!                  (or of any block never handed out) and no block left allocated.
//! Large arrays (8/16 MiB) are built on a 256 KiB-stack thread in child processes.

#![allow(unexpected_cfgs)]
#![cfg_attr(vkit_nightly, feature(alloc_error_hook))]

use generic_array::functional::FunctionalSequence;
use generic_array::sequence::GenericSequence;
use generic_array::{box_arr, ArrayLength, GenericArray};
use std::process::{Command, Stdio};
use vkit::alloc::{self, Recorder, Window};
use vkit::fault::{self, Fuse};
use vkit::script::{Hint, ScriptIter};
use vkit::typenum::{self, U};
use vkit::{ledger, Args, Caught, Elem, Stats, Tok, ZTok};

// Under Miri the interpreter's own Rust-heap checks (zero-size requests, layout on
// dealloc, leaks) are stricter than the recorder, which forwards to the C heap; so the
// recorder is installed for native / sanitizer builds only (windows are then empty).
#[cfg_attr(not(miri), global_allocator)]
#[allow(dead_code)]
static GLOBAL: Recorder = Recorder;

type GA<E, N> = GenericArray<E, N>;

fn mk<E: Elem, N: ArrayLength>() -> GA<E, N> {
    GA::<E, N>::generate(|_| E::fresh())
}
fn keys<E: Elem>(s: &[E]) -> Vec<u64> {
    let _m = alloc::Mask::new();
    s.iter().map(|e| e.key()).collect()
}
fn mkvec<E: Elem>(len: usize, spare: usize) -> Vec<E> {
    let mut v = Vec::with_capacity(len + spare);
    for _ in 0..len {
        v.push(E::fresh());
    }
    v
}

#[derive(Clone, Copy, Debug, Default)]
struct Ctx {
    fail_at: Option<usize>,
    panic_at: Option<usize>,
}

/// What a case body reports back (allocated outside the window).
#[derive(Default, Debug)]
struct Rep {
    /// allocation requests (alloc/alloc_zeroed/realloc) made by the operation itself
    requests_in_op: usize,
    /// closure / iterator calls the operation made (for the panic grid)
    calls: usize,
    /// did an injected panic propagate?
    injected: bool,
    /// identity facts for the O(1) conversions
    in_ptr: usize,
    out_ptr: usize,
    payload: usize,
    brief: Vec<String>,
    allocs_total: usize,
}

struct Sess {
    win: Option<Window>,
    start: usize,
    end: usize,
}
impl Sess {
    fn begin() -> Sess {
        Sess { win: Some(Window::open(None)), start: 0, end: 0 }
    }
    fn arm(&mut self, cx: &Ctx) {
        self.start = alloc::log_pos();
        alloc::arm_fail(cx.fail_at);
    }
    fn disarm(&mut self) {
        alloc::arm_fail(None);
        self.end = alloc::log_pos();
    }
    /// close the window (everything must have been dropped), audit it
    fn finish(mut self, rep: &mut Rep, o1: bool) -> Result<(), String> {
        let trace = self.win.take().unwrap().close();
        let audit = trace.audit(true);
        let op = &trace.recs[self.start.min(trace.recs.len())..self.end.min(trace.recs.len())];
        rep.requests_in_op = op.iter().filter(|r| !r.masked && !matches!(r.op, alloc::Op::Dealloc)).count();
        rep.allocs_total = audit.allocs;
        rep.brief = trace.brief();
        if let Some(v) = audit.violations.first() {
            return Err(format!("{}: {:?}; allocator log: {:?}", v.kind(), v, trace.brief()));
        }
        if o1 && rep.payload > 0 {
            if rep.in_ptr != rep.out_ptr {
                return Err(format!("BlockMoved: documented O(1) conversion returned a different block ({:#x} -> {:#x})", rep.in_ptr, rep.out_ptr));
            }
            let optrace = alloc::Trace { recs: op.to_vec(), overflow: false };
            if optrace.released(rep.in_ptr) {
                return Err("BlockReleased: documented O(1) conversion released the original block".into());
            }
            if optrace.requested_at_least(rep.payload) {
                return Err(format!("PayloadCopied: documented O(1) conversion requested a new block >= payload ({} bytes): {:?}", rep.payload, optrace.brief()));
            }
        }
        Ok(())
    }
}

fn same<E: Elem>(what: &str, got: &[u64], want: &[u64]) -> Result<(), String> {
    if got.len() != want.len() {
        return Err(format!("LengthMismatch: {what}: {} elements, expected {}", got.len(), want.len()));
    }
    if E::KEYED && got != want {
        return Err(format!("ContentMismatch: {what}: {got:x?} != {want:x?}"));
    }
    Ok(())
}

// ------------------------------------------------------------------ operations

#[derive(Clone, Copy, Debug, PartialEq)]
enum Op {
    VecTryInto { len_delta: i32, spare: usize },
    BoxSliceTryInto { len_delta: i32 },
    GaIntoVec,
    GaIntoBoxSlice,
    IntoBoxedSlice,
    IntoVec,
    TryFromBoxedSlice { len_delta: i32 },
    TryFromVec { len_delta: i32, spare: usize },
    BoxIntoIter,
    TryBoxedFromIter { c_delta: i32, hint: u8 },
    BoxFromIter,
    BoxFromIterLying { c_delta: i32 },
    DefaultBoxed,
    BoxGenerate,
    BoxMap,
    BoxZip,
    BoxInvZipStack,
    BoxFold,
    BoxClone,
}

impl Op {
    fn name(&self) -> String {
        match self {
            Op::VecTryInto { len_delta, spare } => format!("TryFrom<Vec>(len=N{len_delta:+},spare={spare})"),
            Op::BoxSliceTryInto { len_delta } => format!("TryFrom<Box<[T]>>(len=N{len_delta:+})"),
            Op::GaIntoVec => "Vec::from(GA)".into(),
            Op::GaIntoBoxSlice => "Box<[T]>::from(GA)".into(),
            Op::IntoBoxedSlice => "into_boxed_slice".into(),
            Op::IntoVec => "into_vec".into(),
            Op::TryFromBoxedSlice { len_delta } => format!("try_from_boxed_slice(len=N{len_delta:+})"),
            Op::TryFromVec { len_delta, spare } => format!("try_from_vec(len=N{len_delta:+},spare={spare})"),
            Op::BoxIntoIter => "Box::into_iter".into(),
            Op::TryBoxedFromIter { c_delta, hint } => format!("try_boxed_from_iter(c=N{c_delta:+},hint={})", ["unknown", "(0,Some(N))", "(N,Some(N))", "exact"][*hint as usize]),
            Op::BoxFromIter => "Box::from_iter".into(),
            Op::BoxFromIterLying { c_delta } => format!("Box::from_iter(hint=(N,Some(N)) but c=N{c_delta:+})"),
            Op::DefaultBoxed => "default_boxed".into(),
            Op::BoxGenerate => "Box::generate".into(),
            Op::BoxMap => "Box::map".into(),
            Op::BoxZip => "Box::zip".into(),
            Op::BoxInvZipStack => "Box::inverted_zip(stack array)".into(),
            Op::BoxFold => "Box::fold".into(),
            Op::BoxClone => "Box::clone".into(),
        }
    }
    fn short(&self) -> &'static str {
        match self {
            Op::VecTryInto { .. } => "TryFrom<Vec>",
            Op::BoxSliceTryInto { .. } => "TryFrom<Box<[T]>>",
            Op::GaIntoVec => "Vec::from(GA)",
            Op::GaIntoBoxSlice => "Box<[T]>::from(GA)",
            Op::IntoBoxedSlice => "into_boxed_slice",
            Op::IntoVec => "into_vec",
            Op::TryFromBoxedSlice { .. } => "try_from_boxed_slice",
            Op::TryFromVec { .. } => "try_from_vec",
            Op::BoxIntoIter => "Box::into_iter",
            Op::TryBoxedFromIter { .. } => "try_boxed_from_iter",
            Op::BoxFromIter => "Box::from_iter",
            Op::BoxFromIterLying { .. } => "Box::from_iter(lying hint)",
            Op::DefaultBoxed => "default_boxed",
            Op::BoxGenerate => "Box::generate",
            Op::BoxMap => "Box::map",
            Op::BoxZip => "Box::zip",
            Op::BoxInvZipStack => "Box::inverted_zip(stack)",
            Op::BoxFold => "Box::fold",
            Op::BoxClone => "Box::clone",
        }
    }
    /// does the operation call back into caller-supplied code (panic grid)?
    fn has_callbacks(&self) -> bool {
        matches!(self, Op::TryBoxedFromIter { .. } | Op::BoxFromIter | Op::DefaultBoxed | Op::BoxGenerate | Op::BoxMap | Op::BoxZip | Op::BoxInvZipStack | Op::BoxFold | Op::BoxClone)
    }
}

fn all_ops() -> Vec<Op> {
    let mut v = vec![];
    for d in [-1, 0, 1, i32::MIN] {
        for spare in [0usize, 3] {
            v.push(Op::VecTryInto { len_delta: d, spare });
            v.push(Op::TryFromVec { len_delta: d, spare });
        }
        v.push(Op::BoxSliceTryInto { len_delta: d });
        v.push(Op::TryFromBoxedSlice { len_delta: d });
    }
    v.extend([Op::GaIntoVec, Op::GaIntoBoxSlice, Op::IntoBoxedSlice, Op::IntoVec, Op::BoxIntoIter]);
    for d in [-1, 0, 1, 2] {
        for hint in 0..4u8 {
            v.push(Op::TryBoxedFromIter { c_delta: d, hint });
        }
    }
    for d in [-1, 1, i32::MIN] {
        v.push(Op::BoxFromIterLying { c_delta: d });
    }
    v.extend([Op::BoxFromIter, Op::DefaultBoxed, Op::BoxGenerate, Op::BoxMap, Op::BoxZip, Op::BoxFold, Op::BoxClone, Op::BoxInvZipStack]);
    v
}

/// source length for a delta (i32::MIN means "empty source")
fn src_len(n: usize, d: i32) -> Option<usize> {
    if d == i32::MIN {
        return if n == 0 { None } else { Some(0) };
    }
    let l = n as i64 + d as i64;
    if l < 0 {
        None
    } else {
        Some(l as usize)
    }
}

/// Run one operation on (E, N) under the allocator window.  Returns Ok(None) if the
/// parameter combination does not exist (e.g. N-1 for N = 0).
fn exec<E: Elem + Clone + Default, N: ArrayLength>(op: Op, cx: Ctx) -> Result<Option<Rep>, String> {
    let n = N::USIZE;
    let sz = core::mem::size_of::<E>();
    let mut rep = Rep::default();
    let mut s = Sess::begin();
    let mut o1 = false;
    macro_rules! guarded {
        ($body:expr) => {{
            s.arm(&cx);
            let r = vkit::catch(|| $body);
            s.disarm();
            match r {
                Caught::Returned(x) => Some(x),
                Caught::Injected(..) => {
                    rep.injected = true;
                    None
                }
                Caught::Other(m) => return Err(format!("Panic: {m} ({})", fault::last_panic())),
            }
        }};
    }
    match op {
        Op::VecTryInto { len_delta, spare } => {
            let Some(l) = src_len(n, len_delta) else { return Ok(None) };
            let v = mkvec::<E>(l, spare);
            let want = keys(&v);
            let out = guarded!(GA::<E, N>::try_from(v));
            match out {
                Some(Ok(a)) => {
                    if l != n {
                        return Err(format!("WrongOk: Vec of length {l} accepted for N = {n}"));
                    }
                    same::<E>("TryFrom<Vec>", &keys(&a), &want)?;
                }
                Some(Err(_)) => {
                    if l == n {
                        return Err(format!("WrongErr: Vec of length N = {n} refused"));
                    }
                }
                None => {}
            }
        }
        Op::BoxSliceTryInto { len_delta } => {
            let Some(l) = src_len(n, len_delta) else { return Ok(None) };
            let v: Box<[E]> = mkvec::<E>(l, 0).into_boxed_slice();
            let want = keys(&v);
            let out = guarded!(GA::<E, N>::try_from(v));
            match out {
                Some(Ok(a)) => {
                    if l != n {
                        return Err(format!("WrongOk: Box<[T]> of length {l} accepted for N = {n}"));
                    }
                    same::<E>("TryFrom<Box<[T]>>", &keys(&a), &want)?;
                }
                Some(Err(_)) => {
                    if l == n {
                        return Err(format!("WrongErr: Box<[T]> of length N = {n} refused"));
                    }
                }
                None => {}
            }
        }
        Op::GaIntoVec => {
            let a: GA<E, N> = mk();
            let want = keys(&a);
            if let Some(v) = guarded!(Vec::<E>::from(a)) {
                same::<E>("Vec::from", &keys(&v), &want)?;
            }
        }
        Op::GaIntoBoxSlice => {
            let a: GA<E, N> = mk();
            let want = keys(&a);
            if let Some(v) = guarded!(Box::<[E]>::from(a)) {
                same::<E>("Box<[T]>::from", &keys(&v), &want)?;
            }
        }
        Op::IntoBoxedSlice => {
            let b: Box<GA<E, N>> = Box::new(mk());
            let want = keys(&b[..]);
            rep.in_ptr = b.as_ptr() as usize;
            rep.payload = n * sz;
            o1 = true;
            if let Some(v) = guarded!(b.into_boxed_slice()) {
                rep.out_ptr = v.as_ptr() as usize;
                same::<E>("into_boxed_slice", &keys(&v), &want)?;
            }
        }
        Op::IntoVec => {
            let b: Box<GA<E, N>> = Box::new(mk());
            let want = keys(&b[..]);
            rep.in_ptr = b.as_ptr() as usize;
            rep.payload = n * sz;
            o1 = true;
            if let Some(v) = guarded!(b.into_vec()) {
                rep.out_ptr = v.as_ptr() as usize;
                if v.capacity() < v.len() {
                    return Err("ContentMismatch: into_vec capacity < len".into());
                }
                if sz > 0 && v.capacity() != n {
                    // the Vec owns the array's block, which holds exactly N elements: a different
                    // capacity misdescribes it (writes within capacity leave it; it is freed with the wrong size)
                    return Err(format!("BlockMisdescribed: into_vec returns capacity {} for the {n}-element block it took over", v.capacity()));
                }
                same::<E>("into_vec", &keys(&v), &want)?;
            }
        }
        Op::TryFromBoxedSlice { len_delta } => {
            let Some(l) = src_len(n, len_delta) else { return Ok(None) };
            let v: Box<[E]> = mkvec::<E>(l, 0).into_boxed_slice();
            let want = keys(&v);
            rep.in_ptr = v.as_ptr() as usize;
            rep.payload = n * sz;
            match guarded!(GA::<E, N>::try_from_boxed_slice(v)) {
                Some(Ok(a)) => {
                    if l != n {
                        return Err(format!("WrongOk: Box<[T]> of length {l} accepted for N = {n}"));
                    }
                    o1 = true;
                    rep.out_ptr = a.as_ptr() as usize;
                    same::<E>("try_from_boxed_slice", &keys(&a[..]), &want)?;
                }
                Some(Err(_)) => {
                    if l == n {
                        return Err(format!("WrongErr: Box<[T]> of length N = {n} refused"));
                    }
                }
                None => {}
            }
        }
        Op::TryFromVec { len_delta, spare } => {
            let Some(l) = src_len(n, len_delta) else { return Ok(None) };
            let v = mkvec::<E>(l, spare);
            let exact = v.capacity() == v.len();
            let want = keys(&v);
            rep.in_ptr = v.as_ptr() as usize;
            rep.payload = n * sz;
            match guarded!(GA::<E, N>::try_from_vec(v)) {
                Some(Ok(a)) => {
                    if l != n {
                        return Err(format!("WrongOk: Vec of length {l} accepted for N = {n}"));
                    }
                    // O(1) is documented only when length equals capacity
                    o1 = exact;
                    rep.out_ptr = a.as_ptr() as usize;
                    same::<E>("try_from_vec", &keys(&a[..]), &want)?;
                }
                Some(Err(_)) => {
                    if l == n {
                        return Err(format!("WrongErr: Vec of length N = {n} refused"));
                    }
                }
                None => {}
            }
        }
        Op::BoxIntoIter => {
            let b: Box<GA<E, N>> = Box::new(mk());
            let want = keys(&b[..]);
            if let Some(got) = guarded!({
                let it = b.into_iter();
                let mut ks = Vec::new();
                for e in it {
                    let _m = alloc::Mask::new();
                    ks.push(e.key());
                }
                ks
            }) {
                same::<E>("Box::into_iter", &got, &want)?;
            }
        }
        Op::TryBoxedFromIter { c_delta, hint } => {
            let Some(c) = src_len(n, c_delta) else { return Ok(None) };
            // hints that do not rule N out, truthful or not: the verdict must follow the items
            let h = match hint {
                0 => Hint::Unknown,
                1 => Hint::Fixed(0, Some(n)),
                2 => Hint::Fixed(n, Some(n)),
                _ => Hint::Exact,
            };
            let ruled_out = hint == 3 && c != n;
            let (src, log) = ScriptIter::<E>::new(c, h, true, cx.panic_at);
            let out = guarded!(GA::<E, N>::try_boxed_from_iter(src));
            rep.calls = log.borrow().polls;
            if cx.panic_at.is_none() && cx.fail_at.is_none() && log.borrow().polls > n + 1 {
                // a conversion that "succeeds exactly when the source length is N" has decided after
                // N + 1 items; draining the rest (an endless source never ends) is not that
                return Err(format!("TooManyPolls: the boxed collector pulled {} items from a source of {c} to decide about N = {n}", log.borrow().polls));
            }
            match out {
                Some(Ok(a)) => {
                    if c != n {
                        return Err(format!("WrongOk: {c} items accepted for N = {n}"));
                    }
                    same::<E>("try_boxed_from_iter", &keys(&a[..]), &log.borrow().yielded)?;
                }
                Some(Err(_)) => {
                    if c == n && !ruled_out {
                        return Err(format!("WrongErr: exactly N = {n} items refused"));
                    }
                }
                None => {}
            }
            drop(log);
        }
        Op::BoxFromIter => {
            let (src, log) = ScriptIter::<E>::new(n, Hint::Exact, true, cx.panic_at);
            let out = guarded!(src.collect::<Box<GA<E, N>>>());
            rep.calls = log.borrow().polls;
            if let Some(a) = out {
                same::<E>("Box::from_iter", &keys(&a[..]), &log.borrow().yielded)?;
            }
            drop(log);
        }
        Op::BoxFromIterLying { c_delta } => {
            // the source claims exactly N items but delivers another count: collect() must
            // panic with the length message, and every block must still be released properly
            let Some(c) = src_len(n, c_delta) else { return Ok(None) };
            if c == n {
                return Ok(None);
            }
            let (src, log) = ScriptIter::<E>::new(c, Hint::Fixed(n, Some(n)), true, None);
            s.arm(&cx);
            let r = vkit::catch(move || src.collect::<Box<GA<E, N>>>());
            s.disarm();
            match r {
                Caught::Returned(b) => {
                    drop(b);
                    return Err(format!("WrongOk: collect() into Box<GenericArray<_, U{n}>> accepted a source of {c} items that claimed exactly {n}"));
                }
                Caught::Other(m) => {
                    if !m.contains(&format!("expected {n} items")) {
                        return Err(format!("Panic: unexpected panic {m}"));
                    }
                }
                Caught::Injected(..) => return Err("Panic: injected".into()),
            }
            drop(log);
        }
        Op::DefaultBoxed => {
            if let Some(k) = cx.panic_at {
                fault::arm_default(k);
            }
            let out = guarded!(GA::<E, N>::default_boxed());
            rep.calls = fault::default_calls() as usize;
            if let Some(a) = out {
                if a.len() != n {
                    return Err("LengthMismatch: default_boxed".into());
                }
            }
        }
        Op::BoxGenerate => {
            let mut f = Fuse::new("gen", cx.panic_at);
            let mut made = Vec::new();
            let out = guarded!(<Box<GA<E, N>> as GenericSequence<E>>::generate(|_| {
                f.tick();
                let e = E::fresh();
                {
                    let _m = alloc::Mask::new();
                    made.push(e.key());
                }
                e
            }));
            rep.calls = f.calls;
            if let Some(a) = out {
                same::<E>("Box::generate", &keys(&a[..]), &made)?;
            }
            drop(made);
        }
        Op::BoxMap => {
            let b: Box<GA<E, N>> = Box::new(mk());
            let mut f = Fuse::new("map", cx.panic_at);
            let mut made = Vec::new();
            let out = guarded!(b.map(|x| {
                f.tick();
                drop(x);
                let e = E::fresh();
                {
                    let _m = alloc::Mask::new();
                    made.push(e.key());
                }
                e
            }));
            rep.calls = f.calls;
            if let Some(a) = out {
                let a: Box<GA<E, N>> = a;
                same::<E>("Box::map", &keys(&a[..]), &made)?;
            }
            drop(made);
        }
        Op::BoxZip => {
            let a: Box<GA<E, N>> = Box::new(mk());
            let b: Box<GA<E, N>> = Box::new(mk());
            let want = keys(&a[..]);
            let mut f = Fuse::new("zip", cx.panic_at);
            let out = guarded!(a.zip(b, |l, r| {
                f.tick();
                drop(r);
                l
            }));
            rep.calls = f.calls;
            if let Some(c) = out {
                let c: Box<GA<E, N>> = c;
                same::<E>("Box::zip", &keys(&c[..]), &want)?;
            }
        }
        Op::BoxInvZipStack => {
            // the trait's own entry point with a boxed right operand and a stack left operand: the
            // box is consumed by the call and its block must come back to the allocator
            let a: GA<E, N> = mk();
            let b: Box<GA<E, N>> = Box::new(mk());
            let want = keys(&a[..]);
            let mut f = Fuse::new("zip", cx.panic_at);
            let out = guarded!(GenericSequence::inverted_zip(b, a, |l: E, r: E| {
                f.tick();
                drop(r);
                l
            }));
            rep.calls = f.calls;
            if let Some(c) = out {
                let c: GA<E, N> = c;
                same::<E>("Box::inverted_zip(stack)", &keys(&c[..]), &want)?;
            }
        }
        Op::BoxFold => {
            let a: Box<GA<E, N>> = Box::new(mk());
            let want = keys(&a[..]);
            let mut f = Fuse::new("fold", cx.panic_at);
            let out = guarded!(a.fold(Vec::new(), |mut acc, x| {
                f.tick();
                let _m = alloc::Mask::new();
                acc.push(x.key());
                acc
            }));
            rep.calls = f.calls;
            if let Some(got) = out {
                same::<E>("Box::fold", &got, &want)?;
            }
        }
        Op::BoxClone => {
            let a: Box<GA<E, N>> = Box::new(mk());
            if let Some(k) = cx.panic_at {
                fault::arm_clone(k);
            }
            let out = guarded!(a.clone());
            rep.calls = fault::clone_calls() as usize;
            if let Some(c) = out {
                if c.len() != n {
                    return Err("LengthMismatch: Box::clone".into());
                }
            }
        }
    }
    s.finish(&mut rep, o1)?;
    Ok(Some(rep))
}

// ------------------------------------------------------------------ box_arr! (fixed shapes)

fn box_arr_cases<E: Elem + Clone>(st: &mut Stats, prop: &str) {
    let other = std::cell::Cell::new(0u64);
    st.check_case(prop, "box_arr!", E::NAME, || format!("{prop} box_arr! {} list3", E::NAME), true, || {
        let mut s = Sess::begin();
        let mut rep = Rep::default();
        s.arm(&Ctx::default());
        let (a, b, c) = (E::fresh(), E::fresh(), E::fresh());
        let want = {
            let _m = alloc::Mask::new();
            vec![a.key(), b.key(), c.key()]
        };
        let bx: Box<GA<E, typenum::U3>> = box_arr![a, b, c];
        s.disarm();
        route(prop, same::<E>("box_arr![a,b,c]", &keys(&bx[..]), &want), &other)?;
        drop(bx);
        route(prop, s.finish(&mut rep, false), &other).map(|_| ())
    });
    st.check_case(prop, "box_arr!", E::NAME, || format!("{prop} box_arr! {} repeat_ty5", E::NAME), true, || {
        let mut s = Sess::begin();
        let mut rep = Rep::default();
        s.arm(&Ctx::default());
        let x = E::fresh();
        let bx: Box<GA<E, typenum::U5>> = box_arr![x; typenum::U5];
        s.disarm();
        if bx.len() != 5 {
            return Err("LengthMismatch: box_arr![x; U5]".into());
        }
        drop(bx);
        route(prop, s.finish(&mut rep, false), &other).map(|_| ())
    });
    st.check_case(prop, "box_arr!", E::NAME, || format!("{prop} box_arr! {} repeat_const4", E::NAME), true, || {
        let mut s = Sess::begin();
        let mut rep = Rep::default();
        s.arm(&Ctx::default());
        let x = E::fresh();
        let bx: Box<GA<E, typenum::U4>> = box_arr![x; 4];
        s.disarm();
        if bx.len() != 4 {
            return Err("LengthMismatch: box_arr![x; 4]".into());
        }
        drop(bx);
        route(prop, s.finish(&mut rep, false), &other).map(|_| ())
    });
    st.check_case(prop, "box_arr!", E::NAME, || format!("{prop} box_arr! {} empty", E::NAME), false, || {
        let mut s = Sess::begin();
        let mut rep = Rep::default();
        s.arm(&Ctx::default());
        let bx: Box<GA<E, typenum::U0>> = box_arr![];
        s.disarm();
        drop(bx);
        route(prop, s.finish(&mut rep, false), &other).map(|_| ())
    });
}

/// boxed map between element types of equal size but different alignment: the result's
/// block must have been requested with the *result's* layout
fn box_map_realign_cases(st: &mut Stats, prop: &str) {
    fn one<N: ArrayLength>(st: &mut Stats, prop: &str) {
        let n = N::USIZE;
        let other = std::cell::Cell::new(0u64);
        st.check_case(prop, "Box::map(realign)", "[u8;8]>u64", || format!("{prop} Box::map(realign) [u8;8]>u64 N={n}"), n > 0, || {
            let mut s = Sess::begin();
            let mut rep = Rep::default();
            let b: Box<GA<[u8; 8], N>> = Box::new(GA::<[u8; 8], N>::generate(|i| (i as u64 * 0x0101_0101_0101_0101).to_le_bytes()));
            s.arm(&Ctx::default());
            let out: Box<GA<u64, N>> = b.map(u64::from_le_bytes);
            s.disarm();
            for (i, v) in out.iter().enumerate() {
                if *v != i as u64 * 0x0101_0101_0101_0101 {
                    return Err("ContentMismatch: Box::map to a same-size type".into());
                }
            }
            if (out.as_ptr() as usize) % core::mem::align_of::<u64>() != 0 {
                return Err("ContentMismatch: mapped box is not aligned for its element type".into());
            }
            drop(out);
            route(prop, s.finish(&mut rep, false), &other).map(|_| ())
        });
        st.check_case(prop, "Box::zip(realign)", "[u8;4]x[u8;4]>u32", || format!("{prop} Box::zip(realign) [u8;4]>u32 N={n}"), n > 0, || {
            let mut s = Sess::begin();
            let mut rep = Rep::default();
            let a: Box<GA<[u8; 4], N>> = Box::new(GA::<[u8; 4], N>::generate(|i| (i as u32).to_le_bytes()));
            let b: Box<GA<[u8; 4], N>> = Box::new(GA::<[u8; 4], N>::generate(|_| [1, 0, 0, 0]));
            s.arm(&Ctx::default());
            let out: Box<GA<u32, N>> = a.zip(b, |x, y| u32::from_le_bytes(x) + u32::from_le_bytes(y));
            s.disarm();
            for (i, v) in out.iter().enumerate() {
                if *v != i as u32 + 1 {
                    return Err("ContentMismatch: Box::zip to a same-size type".into());
                }
            }
            drop(out);
            route(prop, s.finish(&mut rep, false), &other).map(|_| ())
        });
    }
    one::<U<0>>(st, prop);
    one::<U<1>>(st, prop);
    one::<U<3>>(st, prop);
    one::<U<8>>(st, prop);
    one::<U<37>>(st, prop);
}

// ------------------------------------------------------------------ children

fn self_exe() -> std::path::PathBuf {
    std::env::current_exe().expect("current_exe")
}

#[derive(Debug)]
struct ChildOutcome {
    code: Option<i32>,
    signal: Option<i32>,
    stdout: String,
    stderr: String,
}

fn spawn_child(args: &[String]) -> ChildOutcome {
    use std::os::unix::process::ExitStatusExt;
    let out = Command::new(self_exe())
        .args(args)
        .env("RUST_BACKTRACE", "0")
        .env("VKIT_LOUD", "1")
        .stdin(Stdio::null())
        .output()
        .expect("spawn child");
    ChildOutcome {
        code: out.status.code(),
        signal: out.status.signal(),
        stdout: String::from_utf8_lossy(&out.stdout).into_owned(),
        stderr: String::from_utf8_lossy(&out.stderr).into_owned(),
    }
}

fn op_by_index(i: usize) -> Op {
    all_ops()[i]
}

macro_rules! dispatch_flavour_len {
    ($flav:expr, $n:expr, |$E:ident, $N:ident| $body:expr) => {{
        macro_rules! with_e {
            ($ET:ty) => {{
                type $E = $ET;
                vkit::with_len!([0, 1, 2, 3, 8, 16, 17, 100, 1024] $n, $N => $body)
            }};
        }
        match $flav {
            "u8" => with_e!(u8),
            "u64" => with_e!(u64),
            "Tok" => with_e!(Tok),
            "ZTok" => with_e!(ZTok),
            "()" => with_e!(()),
            "[u64;3]" => with_e!([u64; 3]),
            "HeapTok" => with_e!(vkit::HeapTok),
            other => panic!("unknown flavour {other}"),
        }
    }};
}

/// child entry: run one op with allocation request k failing
fn child_allocfail(args: &Args) -> ! {
    let opi = args.get_usize("op", 0);
    let n = args.get_usize("n", 0);
    let k = args.get_usize("k", 0);
    let flav = args.kv.get("flav").cloned().unwrap_or_else(|| "u64".into());
    let op = op_by_index(opi);
    let cx = Ctx { fail_at: Some(k), panic_at: None };
    ledger::begin_case();
    let r = dispatch_flavour_len!(flav.as_str(), n, |E, N| exec::<E, N>(op, cx));
    match r {
        Ok(_) => {
            println!("CHILD-RETURNED");
            std::process::exit(0)
        }
        Err(e) => {
            println!("CHILD-ERR {e}");
            std::process::exit(3)
        }
    }
}

/// child entry (nightly builds): allocation request k fails and the allocation-error hook panics
#[cfg(vkit_nightly)]
fn child_allocfail_unwind(args: &Args) -> ! {
    use std::sync::atomic::{AtomicBool, Ordering};
    static HOOK_FIRED: AtomicBool = AtomicBool::new(false);
    let opi = args.get_usize("op", 0);
    let n = args.get_usize("n", 0);
    let k = args.get_usize("k", 0);
    let flav = args.kv.get("flav").cloned().unwrap_or_else(|| "u64".into());
    let op = op_by_index(opi);
    std::alloc::set_alloc_error_hook(|_layout| {
        HOOK_FIRED.store(true, Ordering::SeqCst);
        // a payload that needs no allocation
        std::panic::panic_any("ALLOC-ERROR-HOOK")
    });
    let cx = Ctx { fail_at: Some(k), panic_at: None };
    ledger::begin_case();
    let r = std::panic::catch_unwind(std::panic::AssertUnwindSafe(|| dispatch_flavour_len!(flav.as_str(), n, |E, N| exec::<E, N>(op, cx))));
    alloc::arm_fail(None);
    if HOOK_FIRED.load(Ordering::SeqCst) {
        // the operation (or the part of it that was running) was torn down by unwinding, whether
        // the panic reached us or an inner catch of the case body: everything it held is gone, so
        // the allocator log must be clean — no release of the null block or of a block never
        // handed out, no block left allocated
        drop(r);
        let mut trace = alloc::snapshot();
        // requests made after the injected failure belong to the panic runtime and to this
        // harness' own panic bookkeeping (payload box, message strings), not to the operation,
        // which only releases from here on: exempt them from the rules; releases stay judged
        if let Some(i) = trace.recs.iter().position(|r| r.injected_fail) {
            for r in trace.recs[i + 1..].iter_mut() {
                if !matches!(r.op, alloc::Op::Dealloc) {
                    r.masked = true;
                }
            }
        }
        let audit = trace.audit(true);
        if let Some(v) = audit.violations.first() {
            println!("CHILD-ERR {}: after the allocation-error hook unwound: {:?}; allocator log: {:?}", v.kind(), v, trace.brief());
            std::process::exit(3)
        }
        println!("CHILD-UNWOUND-CLEAN requests={} releases={}", audit.allocs, audit.deallocs);
        std::process::exit(0)
    }
    match r {
        Ok(Ok(_)) => {
            println!("CHILD-RETURNED");
            std::process::exit(0)
        }
        Ok(Err(e)) => {
            println!("CHILD-ERR {e}");
            std::process::exit(3)
        }
        Err(_) => {
            println!("CHILD-ERR OtherPanic: {}", fault::last_panic());
            std::process::exit(3)
        }
    }
}

fn checksum(s: &[u64]) -> u64 {
    let mut h = 0u64;
    // sample: full traversal of 1M elements is fine natively
    for (i, x) in s.iter().enumerate() {
        h = h.wrapping_mul(31).wrapping_add(*x ^ i as u64);
    }
    h
}

type Big8 = typenum::U1048576; // x u64 = 8 MiB
type Big16 = typenum::U2097152; // x u64 = 16 MiB

fn big_op<N: ArrayLength>(which: &str) -> u64 {
    let n = N::USIZE;
    match which {
        "default_boxed" => {
            let b = GA::<u64, N>::default_boxed();
            assert_eq!(b.len(), n);
            checksum(&b)
        }
        "generate" => {
            let b = <Box<GA<u64, N>> as GenericSequence<u64>>::generate(|i| i as u64 * 3);
            checksum(&b)
        }
        "from_iter" => {
            let b: Box<GA<u64, N>> = (0..n as u64).map(|i| i * 3).collect();
            checksum(&b)
        }
        "try_boxed_from_iter" => {
            let b = GA::<u64, N>::try_boxed_from_iter((0..n as u64).map(|i| i * 3)).expect("exactly N");
            checksum(&b)
        }
        "box_arr_ty" => {
            let b: Box<GA<u64, N>> = box_arr![7u64; N];
            checksum(&b)
        }
        "box_arr_const" => {
            // the length given as a constant expression (third arm of the macro): same promise
            if n == 1 << 20 {
                let b = box_arr![7u64; 1048576];
                assert_eq!(b.len(), n);
                checksum(&b)
            } else {
                let b = box_arr![7u64; 2097152];
                assert_eq!(b.len(), n);
                checksum(&b)
            }
        }
        "map" => {
            let b = <Box<GA<u64, N>> as GenericSequence<u64>>::generate(|i| i as u64);
            let c: Box<GA<u64, N>> = b.map(|x| x * 3);
            checksum(&c)
        }
        "zip" => {
            let a = <Box<GA<u64, N>> as GenericSequence<u64>>::generate(|i| i as u64);
            let b = <Box<GA<u64, N>> as GenericSequence<u64>>::generate(|i| 2 * i as u64);
            let c: Box<GA<u64, N>> = a.zip(b, |x, y| x + y);
            checksum(&c)
        }
        "fold" => {
            let a = <Box<GA<u64, N>> as GenericSequence<u64>>::generate(|i| i as u64 * 3);
            let mut i = 0u64;
            a.fold(0u64, |h, x| {
                let r = h.wrapping_mul(31).wrapping_add(x ^ i);
                i += 1;
                r
            })
        }
        "into_vec_roundtrip" => {
            let b = <Box<GA<u64, N>> as GenericSequence<u64>>::generate(|i| i as u64 * 3);
            let v = b.into_vec();
            let b2 = GA::<u64, N>::try_from_vec(v).expect("same length");
            let s = b2.into_boxed_slice();
            let b3 = GA::<u64, N>::try_from_boxed_slice(s).expect("same length");
            checksum(&b3)
        }
        other => panic!("unknown big op {other}"),
    }
}

fn expected_big(which: &str, n: usize) -> u64 {
    let f: Box<dyn Fn(usize) -> u64> = match which {
        "default_boxed" => Box::new(|_| 0),
        "generate" | "from_iter" | "try_boxed_from_iter" | "map" | "zip" | "fold" | "into_vec_roundtrip" => Box::new(|i| i as u64 * 3),
        "box_arr_ty" | "box_arr_const" => Box::new(|_| 7),
        _ => panic!(),
    };
    let mut h = 0u64;
    for i in 0..n {
        h = h.wrapping_mul(31).wrapping_add(f(i) ^ i as u64);
    }
    h
}

/// 8 KiB element: 48 of them are 384 KiB — far larger than a 256 KiB stack although N is small
#[derive(Clone, Copy)]
struct Huge([u8; 8192]);
impl Default for Huge {
    fn default() -> Huge {
        Huge([0x5A; 8192])
    }
}
type FewHuge = typenum::U48;

fn few_huge_op(which: &str) -> u64 {
    let sum = |a: &[Huge]| a.iter().fold(0u64, |h, x| h.wrapping_mul(31).wrapping_add(x.0[0] as u64 + x.0[8191] as u64));
    match which {
        "default_boxed" => sum(&GA::<Huge, FewHuge>::default_boxed()[..]),
        "generate" => sum(&<Box<GA<Huge, FewHuge>> as GenericSequence<Huge>>::generate(|_| Huge::default())[..]),
        "from_iter" => sum(&(0..48).map(|_| Huge::default()).collect::<Box<GA<Huge, FewHuge>>>()[..]),
        "try_boxed_from_iter" => sum(&GA::<Huge, FewHuge>::try_boxed_from_iter((0..48).map(|_| Huge::default())).ok().expect("exactly N")[..]),
        "box_arr_ty" => {
            let b: Box<GA<Huge, FewHuge>> = box_arr![Huge::default(); FewHuge];
            sum(&b[..])
        }
        "box_arr_const" => {
            let b = box_arr![Huge::default(); 48];
            sum(&b[..])
        }
        "map" => {
            let b = GA::<Huge, FewHuge>::default_boxed();
            let c: Box<GA<Huge, FewHuge>> = b.map(|x| x);
            sum(&c[..])
        }
        "zip" => {
            let a = GA::<Huge, FewHuge>::default_boxed();
            let b = GA::<Huge, FewHuge>::default_boxed();
            let c: Box<GA<Huge, FewHuge>> = a.zip(b, |x, _y| x);
            sum(&c[..])
        }
        "fold" => GA::<Huge, FewHuge>::default_boxed().fold(0u64, |h, x| h.wrapping_mul(31).wrapping_add(x.0[0] as u64 + x.0[8191] as u64)),
        "into_vec_roundtrip" => {
            let b = GA::<Huge, FewHuge>::default_boxed();
            let v = b.into_vec();
            let b2 = GA::<Huge, FewHuge>::try_from_vec(v).ok().expect("same length");
            sum(&b2[..])
        }
        other => panic!("unknown op {other}"),
    }
}
/// list form of box_arr! with a few 1 MiB constants as elements (a path to a const item is
/// materialised in place, so nothing of that size needs to cross the 256 KiB stack)
const MEG: [u8; 1 << 20] = [0x5A; 1 << 20];
fn list_huge_op() -> u64 {
    let b = box_arr![MEG, MEG, MEG, MEG];
    assert_eq!(b.len(), 4);
    b.iter().fold(0u64, |h, x| h.wrapping_mul(31).wrapping_add(x[0] as u64 + x[(1 << 20) - 1] as u64))
}
fn expected_list_huge() -> u64 {
    (0..4).fold(0u64, |h, _| h.wrapping_mul(31).wrapping_add(0x5A + 0x5A))
}

fn expected_few_huge() -> u64 {
    (0..48).fold(0u64, |h, _| h.wrapping_mul(31).wrapping_add(0x5A + 0x5A))
}

const BIG_OPS: &[&str] = &["default_boxed", "generate", "from_iter", "try_boxed_from_iter", "box_arr_ty", "box_arr_const", "map", "zip", "fold", "into_vec_roundtrip"];

/// child entry: build a multi-MiB array on a 256 KiB-stack thread
fn child_bigstack(args: &Args) -> ! {
    let which = args.kv.get("op").cloned().unwrap();
    let mib = args.get_usize("mib", 8);
    let w = which.clone();
    let h = std::thread::Builder::new()
        .stack_size(256 * 1024)
        .spawn(move || if w == "box_arr_list" { list_huge_op() } else if mib == 0 { few_huge_op(&w) } else if mib == 16 { big_op::<Big16>(&w) } else { big_op::<Big8>(&w) })
        .expect("spawn thread")
        .join();
    match h {
        Ok(sum) => {
            println!("CHILD-SUM {sum}");
            std::process::exit(0)
        }
        Err(_) => {
            println!("CHILD-PANIC");
            std::process::exit(4)
        }
    }
}

// ------------------------------------------------------------------ parent: grids

fn grid<E: Elem + Clone + Default, N: ArrayLength>(st: &mut Stats, args: &Args, prop: &str, flav_arg: &str) {
    let n = N::USIZE;
    for (opi, op) in all_ops().into_iter().enumerate() {
        // ---- plain
        let mut learned: Option<Rep> = None;
        let other = std::cell::Cell::new(0u64);
        let ran = st.check_case(prop, op.short(), E::NAME, || format!("{prop} {} {} N={n} plain [{}]", op.short(), E::NAME, op.name()), n > 0, || {
            match route(prop, exec::<E, N>(op, Ctx::default()), &other)? {
                Some(Some(r)) => {
                    learned = Some(r);
                    Ok(())
                }
                _ => Ok(()),
            }
        });
        st.count("verdicts_belonging_to_sibling_property", other.get());
        if let Some(r) = &learned {
            st.count("alloc.requests_in_ops", r.requests_in_op as u64);
            st.count("alloc.window_allocs", r.allocs_total as u64);
            if r.payload > 0 && r.in_ptr != 0 && r.in_ptr == r.out_ptr {
                st.count("o1.same_block_observed", 1);
            }
        }
        if !ran && learned.is_none() {
            // this shard did not run the plain case; learn quietly (not counted) for the grids below
            ledger::begin_case();
            fault::reset();
            if let Ok(Some(r)) = exec::<E, N>(op, Ctx::default()) {
                learned = Some(r);
            }
            let _ = ledger::end_case(true);
        }
        let Some(base) = learned else { continue };

        // ---- panic at every call index (C16 part 2; also a C15 contents check on survivors)
        if prop == "C16" && op.has_callbacks() && args.part_on("panic") {
            for k in 0..base.calls {
                st.check_case("C16", op.short(), E::NAME, || format!("C16 {} {} N={n} panic_at={k}/{} [{}]", op.short(), E::NAME, base.calls, op.name()), true, || {
                    let other = std::cell::Cell::new(0u64);
                    let r = route("C16", exec::<E, N>(op, Ctx { fail_at: None, panic_at: Some(k) }), &other)?;
                    match r {
                        Some(Some(rep)) if !rep.injected => Err(format!("PanicSwallowed: injected panic at call {k} did not propagate")),
                        _ => Ok(()),
                    }
                });
                st.count("c16.panic_cases", 1);
            }
        }

        // ---- allocation failure at every request index (children)
        if prop == "C16" && args.part_on("allocfail") && !cfg!(miri) {
            for k in 0..base.requests_in_op {
                let Some(desc) = st.select(|| format!("C16 {} {} N={n} allocfail k={k}/{} [{}]", op.short(), E::NAME, base.requests_in_op, op.name())) else { continue };
                let out = spawn_child(&[
                    "child=allocfail".into(),
                    format!("op={opi}"),
                    format!("n={n}"),
                    format!("k={k}"),
                    format!("flav={flav_arg}"),
                ]);
                st.op(op.short());
                st.count("c16.allocfail_children", 1);
                let stderr_l = out.stderr.to_lowercase();
                let std_path = out.stderr.contains("memory allocation of") && out.stderr.contains("failed");
                let ub_marks = ["null pointer dereference", "unsafe precondition", "misaligned pointer", "addresssanitizer", "segv"];
                let ub = ub_marks.iter().find(|m| stderr_l.contains(*m));
                let verdict: Result<(), String> = if let Some(m) = ub {
                    Err(format!("TouchedNullBlock: child reported '{m}' after allocation request {k} failed: {}", tail(&out.stderr)))
                } else if out.code == Some(0) && out.stdout.contains("CHILD-RETURNED") {
                    st.count("c16.allocfail_recovered", 1);
                    Ok(())
                } else if out.signal == Some(6) && std_path {
                    st.count("c16.allocfail_std_abort", 1);
                    Ok(())
                } else if out.signal == Some(11) || out.signal == Some(7) {
                    Err(format!("TouchedNullBlock: child died with signal {:?} after allocation request {k} failed", out.signal))
                } else if out.code == Some(3) {
                    Err(format!("AfterFailure: {}", out.stdout.trim()))
                } else {
                    Err(format!("NonStandardFailure: child ended code={:?} signal={:?} without the allocation-error message: {}", out.code, out.signal, tail(&out.stderr)))
                };
                if let Err(e) = verdict {
                    let kind = e.split(':').next().unwrap().to_string();
                    st.violation("C16", &format!("{}|{}|allocfail:{kind}", op.short(), E::NAME), &desc, &e);
                }
                st.done(&desc, true);
            }
        }

        // ---- the same failures with an allocation-error hook that unwinds (nightly builds only)
        if prop == "C16" && args.part_on("allocfail_unwind") && cfg!(vkit_nightly) && !cfg!(miri) {
            for k in 0..base.requests_in_op {
                let Some(desc) = st.select(|| format!("C16 {} {} N={n} allocfail_unwind k={k}/{} [{}]", op.short(), E::NAME, base.requests_in_op, op.name())) else { continue };
                let out = spawn_child(&["child=allocfail_unwind".into(), format!("op={opi}"), format!("n={n}"), format!("k={k}"), format!("flav={flav_arg}")]);
                st.op(op.short());
                st.count("c16.allocfail_unwind_children", 1);
                let stderr_l = out.stderr.to_lowercase();
                let ub_marks = ["null pointer dereference", "unsafe precondition", "misaligned pointer", "addresssanitizer", "segv"];
                let ub = ub_marks.iter().find(|m| stderr_l.contains(*m));
                let verdict: Result<(), String> = if let Some(m) = ub {
                    Err(format!("TouchedNullBlock: child reported '{m}' while unwinding from the allocation-error hook after request {k} failed: {}", tail(&out.stderr)))
                } else if out.code == Some(0) && out.stdout.contains("CHILD-UNWOUND-CLEAN") {
                    st.count("c16.allocfail_unwound_clean", 1);
                    Ok(())
                } else if out.code == Some(0) && out.stdout.contains("CHILD-RETURNED") {
                    st.count("c16.allocfail_recovered", 1);
                    Ok(())
                } else if stderr_l.contains("panicked while processing panic") || stderr_l.contains("panic in a function that cannot unwind") || stderr_l.contains("panic in a destructor during cleanup") {
                    // the failed request belonged to the panic runtime itself (or a second panic met the
                    // first): Rust aborts by rule; says nothing about the crate
                    st.count("c16.allocfail_unwind_double_panic_abort", 1);
                    Ok(())
                } else if out.signal.is_some() {
                    Err(format!("TouchedNullBlock: child died with signal {:?} while unwinding from the allocation-error hook after request {k} failed: {}", out.signal, tail(&out.stderr)))
                } else if out.code == Some(3) {
                    Err(format!("AfterFailure: {}", out.stdout.trim()))
                } else {
                    Err(format!("NonStandardFailure: child ended code={:?}: {}", out.code, tail(&out.stderr)))
                };
                if let Err(e) = verdict {
                    let kind = e.split(':').next().unwrap().to_string();
                    let kind2 = e.split(':').nth(1).map(|s| s.trim().split(' ').next().unwrap_or("").to_string()).unwrap_or_default();
                    let kind = if kind == "AfterFailure" && !kind2.is_empty() { format!("AfterFailure.{}", kind2.trim_start_matches("CHILD-ERR")) } else { kind };
                    st.violation("C16", &format!("{}|{}|allocfail_unwind:{kind}", op.short(), E::NAME), &desc, &e);
                }
                st.done(&desc, true);
            }
        }
    }
}

const C15_KINDS: &[&str] = &["WrongOk", "WrongErr", "ContentMismatch", "LengthMismatch", "BlockMoved", "BlockReleased", "PayloadCopied", "BlockMisdescribed", "TooManyPolls", "Panic"];
const C16_KINDS: &[&str] = &["ZeroSizeRequest", "ReleaseUnknown", "ReleaseLayoutMismatch", "LeakedBlock", "LogOverflow", "PanicSwallowed", "Panic"];

/// Each property gates only on the verdict kinds its statement speaks about; the
/// other kinds are counted (they belong to the sibling property's check).
fn route<T>(prop: &str, r: Result<T, String>, other: &std::cell::Cell<u64>) -> Result<Option<T>, String> {
    match r {
        Ok(x) => Ok(Some(x)),
        Err(e) => {
            let kind = e.split(':').next().unwrap_or("");
            let mine = if prop == "C15" { C15_KINDS } else { C16_KINDS };
            if mine.contains(&kind) {
                Err(e)
            } else {
                other.set(other.get() + 1);
                Ok(None)
            }
        }
    }
}

fn tail(s: &str) -> String {
    let t: Vec<&str> = s.lines().rev().take(4).collect();
    t.into_iter().rev().collect::<Vec<_>>().join(" | ")
}

fn bigstack(st: &mut Stats, args: &Args) {
    if cfg!(miri) {
        return;
    }
    // 0 = "few huge elements" (48 x 16 KiB), otherwise MiB of u64
    let sizes: &[usize] = if args.thorough() { &[0, 8, 16] } else { &[0, 8] };
    {
        let which = "box_arr_list";
        if let Some(desc) = st.select(|| "C15 bigstack box_arr![MEG, MEG, MEG, MEG] (4 x 1MiB const elements, list form) on a 256KiB stack".to_string()) {
            let out = spawn_child(&["child=bigstack".into(), format!("op={which}"), "mib=4".into()]);
            let want = format!("CHILD-SUM {}", expected_list_huge());
            st.op("bigstack");
            st.count("c15.bigstack_children", 1);
            if out.code == Some(0) && out.stdout.contains(&want) {
            } else if out.code == Some(0) {
                st.violation("C15", "bigstack.box_arr_list|[u8;1MiB]|ContentMismatch", &desc, &format!("child printed {:?}, expected {want}", out.stdout.trim()));
            } else {
                st.violation("C15", "bigstack.box_arr_list|[u8;1MiB]|StackOverflow", &desc, &format!("child died code={:?} signal={:?}: {}", out.code, out.signal, tail(&out.stderr)));
            }
            st.done(&desc, true);
        }
    }
    for &mib in sizes {
        for which in BIG_OPS {
            let Some(desc) = st.select(|| if mib == 0 { format!("C15 bigstack {which} 48x8KiB elements on a 256KiB stack") } else { format!("C15 bigstack {which} {mib}MiB on a 256KiB stack") }) else { continue };
            let out = spawn_child(&["child=bigstack".into(), format!("op={which}"), format!("mib={mib}")]);
            let n = mib * 1024 * 1024 / 8;
            let want = if mib == 0 { format!("CHILD-SUM {}", expected_few_huge()) } else { format!("CHILD-SUM {}", expected_big(which, n)) };
            st.op("bigstack");
            st.count("c15.bigstack_children", 1);
            if out.code == Some(0) && out.stdout.contains(&want) {
                // fine
            } else if out.code == Some(0) {
                st.violation("C15", &format!("bigstack.{which}|u64|ContentMismatch"), &desc, &format!("child printed {:?}, expected {want}", out.stdout.trim()));
            } else {
                st.violation(
                    "C15",
                    &format!("bigstack.{which}|u64|StackOverflow"),
                    &desc,
                    &format!("child died code={:?} signal={:?}: {}", out.code, out.signal, tail(&out.stderr)),
                );
            }
            st.done(&desc, true);
        }
    }
}

macro_rules! grids {
    ($st:expr, $args:expr, $prop:expr, $E:ty, $fname:literal, [$($v:literal),*]) => {
        if $args.flavour_on($fname) { $( if $v <= $args.maxn { grid::<$E, U<$v>>($st, &$args, $prop, $fname); } )* }
    };
}

fn main() {
    let args = Args::parse();
    match args.kv.get("child").map(|s| s.as_str()) {
        Some("allocfail") => {
            fault::install_hook();
            child_allocfail(&args)
        }
        Some("bigstack") => child_bigstack(&args),
        #[cfg(vkit_nightly)]
        Some("allocfail_unwind") => {
            fault::install_hook();
            child_allocfail_unwind(&args)
        }
        _ => {}
    }
    let mut st = Stats::new("heap", &args);
    let prop = args.kv.get("prop").cloned().unwrap_or_else(|| "C15".into());
    if prop == "C15" {
        grids!(&mut st, args, "C15", u8, "u8", [0, 1, 2, 3, 8, 16, 17, 100, 1024]);
        grids!(&mut st, args, "C15", u64, "u64", [0, 1, 2, 3, 8, 17, 1024]);
        grids!(&mut st, args, "C15", Tok, "Tok", [0, 1, 2, 3, 8, 16, 17, 100]);
        grids!(&mut st, args, "C15", ZTok, "ZTok", [0, 1, 2, 3, 8, 17]);
        grids!(&mut st, args, "C15", [u64; 3], "[u64;3]", [0, 1, 3, 17, 100]);
        grids!(&mut st, args, "C15", vkit::HeapTok, "HeapTok", [0, 1, 2, 3, 8]);
        if args.flavour_on("Tok") {
            box_arr_cases::<Tok>(&mut st, "C15");
        }
        if args.flavour_on("u64") {
            box_arr_cases::<u64>(&mut st, "C15");
        }
        if args.flavour_on("ZTok") {
            box_arr_cases::<ZTok>(&mut st, "C15");
        }
        box_map_realign_cases(&mut st, "C15");
        if args.part_on("bigstack") {
            bigstack(&mut st, &args);
        }
    } else {
        grids!(&mut st, args, "C16", u8, "u8", [0, 1, 2, 3, 8, 17]);
        grids!(&mut st, args, "C16", u64, "u64", [0, 1, 2, 3, 8, 17]);
        grids!(&mut st, args, "C16", Tok, "Tok", [0, 1, 2, 3, 8, 17]);
        grids!(&mut st, args, "C16", ZTok, "ZTok", [0, 1, 2, 3, 8, 17]);
        grids!(&mut st, args, "C16", (), "()", [0, 1, 2, 3, 8, 17]);
        grids!(&mut st, args, "C16", [u64; 3], "[u64;3]", [0, 1, 2, 3, 8, 17]);
        grids!(&mut st, args, "C16", vkit::HeapTok, "HeapTok", [0, 1, 2, 3, 8]);
        if args.flavour_on("Tok") {
            box_arr_cases::<Tok>(&mut st, "C16");
        }
        if args.flavour_on("u64") {
            box_arr_cases::<u64>(&mut st, "C16");
        }
        if args.flavour_on("ZTok") {
            box_arr_cases::<ZTok>(&mut st, "C16");
        }
        box_map_realign_cases(&mut st, "C16");
    }
    st.finish();
}
