//! cmpfmt — C13: ==, !=, <, <=, >, >=, partial_cmp, cmp, Hash and Debug of a
//! GenericArray agree with the slice of the same elements; map lookups through
//! Borrow<[T]> work.  Exhaustive pairs over small alphabets for N in 0..=4 (incl.
//! the same object on both sides), seeded random pairs sharing long prefixes for
//! larger N, a recording Hasher, and Debug under many flag combinations.

use generic_array::sequence::GenericSequence;
use generic_array::{ArrayLength, GenericArray};
use std::cmp::Ordering;
use std::collections::{BTreeMap, HashMap};
use std::fmt::Debug;
use std::hash::{Hash, Hasher};
use vkit::typenum::{U, U2};
use vkit::{Args, Rng, Stats};

type GA<E, N> = GenericArray<E, N>;

/// one-byte enum whose derived order is by signed discriminant
#[repr(i8)]
#[derive(Clone, Copy, Debug, PartialEq, Eq, PartialOrd, Ord, Hash)]
enum Tiny {
    Neg = -3,
    Zero = 0,
    Pos = 5,
}

/// Ord and PartialOrd that disagree with each other (PartialOrd is derived-ascending, Ord is
/// hand-reversed): legal, if unwise, and it tells `cmp` implemented through `partial_cmp` apart.
#[derive(Clone, Copy, Debug, PartialEq, Eq, Hash)]
struct Split(u8);
impl PartialOrd for Split {
    fn partial_cmp(&self, o: &Split) -> Option<Ordering> {
        Some(self.0.cmp(&o.0))
    }
}
impl Ord for Split {
    fn cmp(&self, o: &Split) -> Ordering {
        o.0.cmp(&self.0)
    }
}

/// total order over floats (`total_cmp`) next to the partial one: NaN is Equal to itself and
/// ordered under `cmp`, incomparable under `partial_cmp`
#[derive(Clone, Copy, Debug)]
struct Tot(f64);
impl PartialEq for Tot {
    fn eq(&self, o: &Tot) -> bool {
        self.0.total_cmp(&o.0) == Ordering::Equal
    }
}
impl Eq for Tot {}
impl PartialOrd for Tot {
    fn partial_cmp(&self, o: &Tot) -> Option<Ordering> {
        self.0.partial_cmp(&o.0)
    }
}
impl Ord for Tot {
    fn cmp(&self, o: &Tot) -> Ordering {
        self.0.total_cmp(&o.0)
    }
}

/// Records every call the hashed value makes.
#[derive(Default)]
struct RecHasher {
    log: Vec<(String, Vec<u8>)>,
}
impl Hasher for RecHasher {
    fn finish(&self) -> u64 {
        0
    }
    fn write(&mut self, bytes: &[u8]) {
        self.log.push(("write".into(), bytes.to_vec()));
    }
    fn write_u8(&mut self, i: u8) {
        self.log.push(("write_u8".into(), vec![i]));
    }
    fn write_u32(&mut self, i: u32) {
        self.log.push(("write_u32".into(), i.to_le_bytes().to_vec()));
    }
    fn write_u64(&mut self, i: u64) {
        self.log.push(("write_u64".into(), i.to_le_bytes().to_vec()));
    }
    fn write_i32(&mut self, i: i32) {
        self.log.push(("write_i32".into(), i.to_le_bytes().to_vec()));
    }
    fn write_usize(&mut self, i: usize) {
        self.log.push(("write_usize".into(), i.to_le_bytes().to_vec()));
    }
    fn write_u16(&mut self, i: u16) {
        self.log.push(("write_u16".into(), i.to_le_bytes().to_vec()));
    }
    fn write_u128(&mut self, i: u128) {
        self.log.push(("write_u128".into(), i.to_le_bytes().to_vec()));
    }
    fn write_i8(&mut self, i: i8) {
        self.log.push(("write_i8".into(), i.to_le_bytes().to_vec()));
    }
    fn write_i16(&mut self, i: i16) {
        self.log.push(("write_i16".into(), i.to_le_bytes().to_vec()));
    }
    fn write_i64(&mut self, i: i64) {
        self.log.push(("write_i64".into(), i.to_le_bytes().to_vec()));
    }
    fn write_isize(&mut self, i: isize) {
        self.log.push(("write_isize".into(), i.to_le_bytes().to_vec()));
    }
}

fn rec<T: Hash + ?Sized>(x: &T) -> Vec<(String, Vec<u8>)> {
    let mut h = RecHasher::default();
    x.hash(&mut h);
    h.log
}

/// All comparison operators on (a, b) against the slices'.
fn cmp_pair<E: PartialOrd + PartialEq + Debug, N: ArrayLength>(a: &GA<E, N>, b: &GA<E, N>) -> Result<(), String> {
    let (sa, sb) = (a.as_slice(), b.as_slice());
    let chk = |name: &str, got: bool, want: bool| -> Result<(), String> {
        if got != want {
            Err(format!("CompareMismatch: `{name}` gives {got}, slices give {want} for {a:?} vs {b:?}"))
        } else {
            Ok(())
        }
    };
    chk("==", a == b, sa == sb)?;
    chk("!=", a != b, sa != sb)?;
    chk("<", a < b, sa < sb)?;
    chk("<=", a <= b, sa <= sb)?;
    chk(">", a > b, sa > sb)?;
    chk(">=", a >= b, sa >= sb)?;
    let (pa, pb) = (a.partial_cmp(b), sa.partial_cmp(sb));
    if pa != pb {
        return Err(format!("CompareMismatch: partial_cmp gives {pa:?}, slices give {pb:?} for {a:?} vs {b:?}"));
    }
    Ok(())
}

fn ord_pair<E: Ord + Debug, N: ArrayLength>(a: &GA<E, N>, b: &GA<E, N>) -> Result<(), String> {
    let (x, y): (Ordering, Ordering) = (a.cmp(b), a.as_slice().cmp(b.as_slice()));
    if x != y {
        return Err(format!("CompareMismatch: cmp gives {x:?}, slices give {y:?} for {a:?} vs {b:?}"));
    }
    if a.max(b).as_slice() != a.as_slice().max(b.as_slice()) {
        return Err("CompareMismatch: max".into());
    }
    Ok(())
}

fn hash_one<E: Hash + Debug, N: ArrayLength>(a: &GA<E, N>) -> Result<(), String> {
    let (ha, hs) = (rec(a), rec(a.as_slice()));
    if ha != hs {
        return Err(format!("HashMismatch: array feeds {ha:?}, its slice feeds {hs:?}"));
    }
    // hash_slice over arrays vs over their slices
    let two = [a, a];
    let mut h1 = RecHasher::default();
    Hash::hash_slice(&two, &mut h1);
    let slices = [a.as_slice(), a.as_slice()];
    let mut h2 = RecHasher::default();
    Hash::hash_slice(&slices, &mut h2);
    if h1.log != h2.log {
        return Err("HashMismatch: hash_slice of arrays differs from hash_slice of their slices".into());
    }
    Ok(())
}

macro_rules! fmt_specs {
    ($a:expr, $s:expr; $($spec:literal),* $(,)?) => {{
        let mut r: Result<(), String> = Ok(());
        $(
            if r.is_ok() {
                let (x, y) = (format!($spec, $a), format!($spec, $s));
                if x != y {
                    r = Err(format!("DebugMismatch: `{}` prints {x:?}, the slice prints {y:?}", $spec));
                }
            }
        )*
        r
    }};
}

fn debug_one<E: Debug, N: ArrayLength>(a: &GA<E, N>) -> Result<(), String> {
    let s = a.as_slice();
    fmt_specs!(a, s;
        "{:?}", "{:#?}", "{:x?}", "{:X?}", "{:#x?}", "{:#X?}", "{:5?}", "{:<6?}", "{:^7?}", "{:>8?}", "{:*^9?}", "{:+?}", "{:05?}", "{:+06?}",
        "{:.0?}", "{:.1?}", "{:.3?}", "{:8.2?}", "{:<8.2?}", "{:+.2?}", "{:+09.3?}", "{:#.2?}", "{:#8?}", "{:#010x?}", "{:#06X?}", "{:e<4?}",
    )?;
    // dynamic width / precision
    for w in 0..=6usize {
        for p in 0..=4usize {
            let (x, y) = (format!("{:w$.p$?}", a, w = w, p = p), format!("{:w$.p$?}", s, w = w, p = p));
            if x != y {
                return Err(format!("DebugMismatch: width {w} precision {p}: {x:?} vs slice {y:?}"));
            }
            let (x, y) = (format!("{:#w$.p$?}", a, w = w, p = p), format!("{:#w$.p$?}", s, w = w, p = p));
            if x != y {
                return Err(format!("DebugMismatch: alternate, width {w} precision {p}: {x:?} vs slice {y:?}"));
            }
        }
    }
    Ok(())
}

fn maps<E: Hash + Eq + Ord + Clone + Debug, N: ArrayLength>(items: &[GA<E, N>]) -> Result<(), String> {
    let mut hm: HashMap<GA<E, N>, usize> = HashMap::new();
    let mut bm: BTreeMap<GA<E, N>, usize> = BTreeMap::new();
    for (i, a) in items.iter().enumerate() {
        hm.insert(a.clone(), i);
        bm.insert(a.clone(), i);
    }
    for a in items {
        let key: &[E] = a.as_slice();
        let want = items.iter().rposition(|x| x == a);
        if hm.get(key).copied() != want {
            return Err(format!("MapLookup: HashMap lookup through Borrow<[T]> failed for {a:?}"));
        }
        if bm.get(key).copied() != want {
            return Err(format!("MapLookup: BTreeMap lookup through Borrow<[T]> failed for {a:?}"));
        }
    }
    Ok(())
}

/// every array of length N over `alpha`
fn all_arrays<E: Clone, N: ArrayLength>(alpha: &[E]) -> Vec<GA<E, N>> {
    let n = N::USIZE;
    let total = alpha.len().pow(n as u32);
    (0..total)
        .map(|mut code| {
            GA::<E, N>::generate(|_| {
                let e = alpha[code % alpha.len()].clone();
                code /= alpha.len();
                e
            })
        })
        .collect()
}

fn exhaustive<E: PartialOrd + PartialEq + Debug + Clone + 'static, N: ArrayLength>(st: &mut Stats, tname: &str, alpha: &[E], extra: impl Fn(&GA<E, N>, &GA<E, N>) -> Result<(), String>, one: impl Fn(&GA<E, N>) -> Result<(), String>) {
    let n = N::USIZE;
    let arrs = all_arrays::<E, N>(alpha);
    for (i, a) in arrs.iter().enumerate() {
        st.check_case("C13", "one", tname, || format!("C13 one {tname} N={n} #{i} {a:?}"), n > 0, || {
            // the same object on both sides (reflexivity is NOT assumed: NaN)
            cmp_pair(a, a)?;
            let alias: &GA<E, N> = a;
            cmp_pair(alias, a)?;
            debug_one(a)?;
            one(a)
        });
        for (j, b) in arrs.iter().enumerate() {
            st.check_case("C13", "pair", tname, || format!("C13 pair {tname} N={n} #{i}x#{j}"), n > 0, || {
                cmp_pair(a, b)?;
                extra(a, b)
            });
        }
    }
}

fn random_pairs<N: ArrayLength>(st: &mut Stats, seed: u64, count: u64) {
    let n = N::USIZE;
    for k in 0..count {
        st.check_case("C13", "random", "mixed", || format!("C13 random mixed N={n} seed={seed} #{k}"), true, || {
            let mut rng = Rng::for_case(seed ^ n as u64, k);
            // u8 arrays sharing a long prefix
            let a = GA::<u8, N>::generate(|_| rng.byte() % 3);
            let split = if n == 0 { 0 } else { rng.below(n + 1) };
            let mut i = 0;
            let b = GA::<u8, N>::generate(|_| {
                let v = if i < split { a[i] } else { rng.byte() % 3 };
                i += 1;
                v
            });
            cmp_pair(&a, &b)?;
            ord_pair(&a, &b)?;
            hash_one(&a)?;
            debug_one(&b)?;
            maps(&[a.clone(), b.clone(), a.clone()])?;
            // f64 with NaN
            let fa = GA::<f64, N>::generate(|j| [f64::NAN, -0.0, 0.0, 1.5][(a[j] as usize + j) % 4]);
            let mut j = 0;
            let fb = GA::<f64, N>::generate(|_| {
                let v = if j < split { fa[j] } else { [f64::NAN, -0.0, 0.0, 1.5][rng.below(4)] };
                j += 1;
                v
            });
            cmp_pair(&fa, &fb)?;
            cmp_pair(&fa, &fa)?;
            debug_one(&fa)?;
            // Strings
            let sa = GA::<String, N>::generate(|j| ["", "a", "ab"][a[j] as usize].to_string());
            let sb = GA::<String, N>::generate(|j| ["", "a", "ab"][b[j] as usize].to_string());
            cmp_pair(&sa, &sb)?;
            ord_pair(&sa, &sb)?;
            hash_one(&sa)?;
            debug_one(&sa)
        });
    }
}

/// lengths above 1024 (the crate has size-dependent code elsewhere; Debug/compare must not)
fn big_cases<N: ArrayLength>(st: &mut Stats, seed: u64) {
    let n = N::USIZE;
    st.check_case("C13", "big", "u8/f64/nested", || format!("C13 big N={n} seed={seed}"), true, || {
        let mut rng = Rng::for_case(seed ^ 0xB16, n as u64);
        let a = GA::<u8, N>::generate(|_| rng.byte());
        let mut b = a.clone();
        let last = n - 1;
        b[last] = b[last].wrapping_add(1);
        cmp_pair(&a, &b)?;
        cmp_pair(&a, &a)?;
        ord_pair(&a, &b)?;
        hash_one(&a)?;
        debug_one(&a)?;
        let f = GA::<f64, N>::generate(|i| if i == last { f64::NAN } else { i as f64 });
        cmp_pair(&f, &f)?;
        debug_one(&f)?;
        // a long array as the element of a short one
        let nested: GA<GA<u8, N>, U2> = GA::from_array([a.clone(), b.clone()]);
        debug_one(&nested)?;
        hash_one(&nested)?;
        let nested2: GA<GA<u8, N>, U2> = GA::from_array([b, a]);
        cmp_pair(&nested, &nested2)?;
        ord_pair(&nested, &nested2)
    });
}

macro_rules! exh_lens {
    ($st:expr, $args:expr, [$($v:literal),*]) => { $( if $v <= $args.maxn {
        type N = U<$v>;
        exhaustive::<u8, N>($st, "u8", &[0u8, 1, 255], |a, b| { ord_pair(a, b)?; maps(&[a.clone(), b.clone()]) }, |a| hash_one(a));
        exhaustive::<i32, N>($st, "i32", &[-1i32, 0, 7], |a, b| ord_pair(a, b), |a| hash_one(a));
        exhaustive::<f64, N>($st, "f64", &[f64::NAN, -0.0, 0.0, 1.0], |_, _| Ok(()), |_| Ok(()));
        exhaustive::<String, N>($st, "String", &["".to_string(), "a".to_string(), "ab".to_string()], |a, b| { ord_pair(a, b)?; maps(&[a.clone(), b.clone()]) }, |a| hash_one(a));
        exhaustive::<i8, N>($st, "i8", &[-128i8, -1, 0, 127], |a, b| { ord_pair(a, b)?; maps(&[a.clone(), b.clone()]) }, |a| hash_one(a));
        exhaustive::<std::cmp::Reverse<u8>, N>($st, "Reverse<u8>", &[std::cmp::Reverse(0u8), std::cmp::Reverse(1), std::cmp::Reverse(255)], |a, b| { ord_pair(a, b)?; maps(&[a.clone(), b.clone()]) }, |a| hash_one(a));
        exhaustive::<Split, N>($st, "Split(Ord reversed vs PartialOrd)", &[Split(0), Split(1), Split(9)], |a, b| { ord_pair(a, b)?; maps(&[a.clone(), b.clone()]) }, |a| hash_one(a));
        exhaustive::<Tot, N>($st, "Tot(total_cmp Ord, partial PartialOrd)", &[Tot(f64::NAN), Tot(-0.0), Tot(0.0), Tot(1.0)], |a, b| ord_pair(a, b), |_| Ok(()));
        exhaustive::<bool, N>($st, "bool", &[false, true], |a, b| ord_pair(a, b), |a| hash_one(a));
        exhaustive::<Tiny, N>($st, "Tiny(repr i8 enum)", &[Tiny::Neg, Tiny::Zero, Tiny::Pos], |a, b| { ord_pair(a, b)?; maps(&[a.clone(), b.clone()]) }, |a| hash_one(a));
        if $v <= 3 {
            let alpha: Vec<GA<u8, U2>> = vec![GA::from_array([0u8, 0]), GA::from_array([0u8, 1]), GA::from_array([1u8, 0])];
            exhaustive::<GA<u8, U2>, N>($st, "GA<u8,2>", &alpha, |a, b| { ord_pair(a, b)?; maps(&[a.clone(), b.clone()]) }, |a| hash_one(a));
        }
    } )* };
}
macro_rules! rnd_lens {
    ($st:expr, $args:expr, $cnt:expr, [$($v:literal),*]) => { $( if $v <= $args.maxn { random_pairs::<U<$v>>($st, $args.seed, $cnt); } )* };
}

fn main() {
    let args = Args::parse();
    let mut st = Stats::new("cmpfmt", &args);
    if args.part_on("exhaustive") {
        exh_lens!(&mut st, args, [0, 1, 2, 3]);
        if args.thorough() {
            exh_lens!(&mut st, args, [4]);
        }
    }
    if args.part_on("random") {
        let cnt = args.budget.unwrap_or(if args.thorough() { 3000 } else { 150 });
        rnd_lens!(&mut st, args, cnt, [0, 1, 5, 8, 16, 17, 100]);
        rnd_lens!(&mut st, args, cnt / 10 + 1, [1024]);
    }
    if args.part_on("big") && args.maxn >= 4096 {
        use generic_array::typenum::{Sum, U1, U1024, U2047, U2048, U4096};
        big_cases::<U<1023>>(&mut st, args.seed);
        big_cases::<U<1024>>(&mut st, args.seed);
        big_cases::<Sum<U1024, U1>>(&mut st, args.seed);
        big_cases::<U2047>(&mut st, args.seed);
        big_cases::<U2048>(&mut st, args.seed);
        big_cases::<U4096>(&mut st, args.seed);
    }
    st.finish();
}
