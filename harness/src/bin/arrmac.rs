//! arrmac — C20: arr! and box_arr! build the array their literal syntax denotes.
//! Generated invocations (arrmac_gen.rs) with every element count 0..=64, 100, 128,
//! 255, 256; each element expression logs its index when evaluated, so the
//! evaluation log must be 0, 1, ..., k-1 once each, the inferred length (read from
//! the result's *type*) must be k, and the contents must be the values those
//! expressions returned — the same as the native array literal.

use generic_array::typenum::{Prod, Sum, Unsigned, U1, U1000, U1024, U2047, U2048, U3, U4096};
use generic_array::{arr, box_arr, ArrayLength, GenericArray};
use std::cell::RefCell;
use vkit::typenum::U;
use vkit::{Args, Elem, Stats, Tok};

thread_local! {
    static EVALS: RefCell<Vec<usize>> = const { RefCell::new(Vec::new()) };
    static MADE: RefCell<Vec<u64>> = const { RefCell::new(Vec::new()) };
    static ONCE: RefCell<usize> = const { RefCell::new(0) };
}

/// element expression number `i`: logs its evaluation, returns a fresh element
fn ev<E: Elem>(i: usize) -> E {
    EVALS.with(|e| e.borrow_mut().push(i));
    let x = E::fresh();
    MADE.with(|m| m.borrow_mut().push(x.key()));
    x
}
/// the `x` of a repeat form: counts how many times the expression is evaluated
fn once(v: u32) -> u32 {
    ONCE.with(|o| *o.borrow_mut() += 1);
    v
}
fn once_s() -> String {
    ONCE.with(|o| *o.borrow_mut() += 1);
    String::from("clone-only")
}
fn reset() {
    EVALS.with(|e| e.borrow_mut().clear());
    MADE.with(|m| m.borrow_mut().clear());
    ONCE.with(|o| *o.borrow_mut() = 0);
}

/// the length as the *type* says
fn len_of<T, N: ArrayLength>(_: &GenericArray<T, N>) -> usize {
    <N as Unsigned>::USIZE
}
fn keys<E: Elem>(s: &[E]) -> Vec<u64> {
    s.iter().map(|e| e.key()).collect()
}

fn list_case<E: Elem, F: FnOnce() -> (usize, Vec<u64>)>(st: &mut Stats, form: &'static str, k: usize, build: F, native: impl FnOnce() -> Vec<u64>) {
    st.check_case("C20", form, E::NAME, || format!("C20 {form} {} count={k}", E::NAME), k > 0, || {
        reset();
        let (len, got) = build();
        let evals = EVALS.with(|e| e.borrow().clone());
        let made = MADE.with(|m| m.borrow().clone());
        let want: Vec<usize> = (0..k).collect();
        if evals != want {
            return Err(format!("EvaluationOrder: element expressions were evaluated as {evals:?}, expected 0..{k} once each in order"));
        }
        if len != k {
            return Err(format!("InferredLength: the result type has length {len}, the literal has {k} elements"));
        }
        if got.len() != k || (E::KEYED && got != made) {
            return Err("Contents: the array does not hold the values of e0..ek in order".into());
        }
        // the native literal with the same expressions behaves the same way
        reset();
        let nat = native();
        let nevals = EVALS.with(|e| e.borrow().clone());
        if nevals != want || nat.len() != k {
            return Err("HarnessBug: native literal reference".into());
        }
        Ok(())
    });
}

thread_local! {
    static LEASES_OUT: std::cell::Cell<u32> = const { std::cell::Cell::new(0) };
}
/// a temporary with an observable lifetime: `lease(i).read()` yields 100*i + (leases alive now)
struct Lease(u32);
fn lease(i: u32) -> Lease {
    LEASES_OUT.with(|c| c.set(c.get() + 1));
    Lease(i)
}
impl Lease {
    fn read(&self) -> u32 {
        self.0 * 100 + LEASES_OUT.with(|c| c.get())
    }
}
impl Drop for Lease {
    fn drop(&mut self) {
        LEASES_OUT.with(|c| c.set(c.get() - 1));
    }
}

fn temps_case(st: &mut Stats, k: usize, native: impl FnOnce() -> Vec<u32>, arr: impl FnOnce() -> Vec<u32>, boxed: impl FnOnce() -> Vec<u32>) {
    st.check_case("C20", "temporaries", "u32", || format!("C20 temporaries count={k}"), true, || {
        let n = native();
        let a = arr();
        let b = boxed();
        if a != n {
            return Err(format!("Contents: arr! gives {a:?}, the native literal {n:?} (temporaries of element expressions observed by later elements)"));
        }
        if b != n {
            return Err(format!("Contents: box_arr! gives {b:?}, arr!/the native literal give {n:?} for the same arguments"));
        }
        if LEASES_OUT.with(|c| c.get()) != 0 {
            return Err("HarnessBug: leases outstanding".into());
        }
        Ok(())
    });
}

fn repeat_case(st: &mut Stats, form: &'static str, n: usize, build: impl FnOnce() -> (usize, Vec<u32>)) {
    st.check_case("C20", form, "u32", || format!("C20 {form} u32 N={n}"), n > 0, || {
        reset();
        let (len, v) = build();
        let evaluated = ONCE.with(|o| *o.borrow());
        if len != n || v.len() != n {
            return Err(format!("InferredLength: {form} gives length {len} ({} elements), N = {n}", v.len()));
        }
        if v.iter().any(|x| *x != 0xA5) {
            return Err("Contents: not N copies of x".into());
        }
        if evaluated != 1 {
            return Err(format!("EvaluationCount: the repeated expression was evaluated {evaluated} times"));
        }
        Ok(())
    });
}

fn repeat_clone_case(st: &mut Stats, form: &'static str, n: usize, build: impl FnOnce() -> (usize, Vec<usize>)) {
    st.check_case("C20", form, "String", || format!("C20 {form} String N={n}"), n > 0, || {
        reset();
        let (len, v) = build();
        let evaluated = ONCE.with(|o| *o.borrow());
        if len != n || v.len() != n {
            return Err(format!("InferredLength: {form} gives length {len}, N = {n}"));
        }
        if v.iter().any(|l| *l != "clone-only".len()) {
            return Err("Contents: not N copies of x".into());
        }
        if evaluated != 1 {
            return Err(format!("EvaluationCount: the repeated expression was evaluated {evaluated} times"));
        }
        Ok(())
    });
}

fn const_case(st: &mut Stats, k: usize, list: &[u8], nat: &[u8], rep_ty: &[u16], rep_ex: &[u16]) {
    st.check_case("C20", "const", "u8/u16", || format!("C20 const count={k}"), k > 0, || {
        if list != nat {
            return Err("Contents: arr! in a const item differs from the native literal".into());
        }
        if rep_ty.len() != k || rep_ex.len() != k || rep_ty.iter().chain(rep_ex).any(|x| *x != 0xBEEF) {
            return Err("Contents: repeat form in a const item".into());
        }
        if konst::STATIC_LIST.as_slice() != ["a", "b", "c"] {
            return Err("Contents: arr! in a static".into());
        }
        Ok(())
    });
}

thread_local! {
    static SOLO_CLONES: std::cell::Cell<u32> = const { std::cell::Cell::new(0) };
}
/// an element that is `Clone` only on paper: one copy of it needs no clone at all, and the
/// native repeat literal `[x; 1]` / `[x; 0]` accepts it.  Cloning it is recorded and panics.
struct Solo(Tok);
impl Clone for Solo {
    fn clone(&self) -> Solo {
        SOLO_CLONES.with(|c| c.set(c.get() + 1));
        panic!("Solo::clone called");
    }
}
fn solo() -> Solo {
    ONCE.with(|o| *o.borrow_mut() += 1);
    let t = Tok::fresh();
    MADE.with(|m| m.borrow_mut().push(t.key()));
    Solo(t)
}

/// repeat forms of length 0 and 1 with a value that cannot be cloned: `arr!` and `box_arr!`
/// must both do what the native literal does — evaluate x once; hold x itself (N = 1) or drop
/// it (N = 0); never call Clone.
fn solo_case(st: &mut Stats, form: &'static str, n: usize, build: impl FnOnce() -> (usize, Vec<u64>) + std::panic::UnwindSafe) {
    st.check_case("C20", form, "Solo(clone panics)", || format!("C20 {form} Solo N={n}"), true, || {
        reset();
        SOLO_CLONES.with(|c| c.set(0));
        vkit::ledger::begin_case();
        let r = std::panic::catch_unwind(build);
        let clones = SOLO_CLONES.with(|c| c.get());
        let evaluated = ONCE.with(|o| *o.borrow());
        let made = MADE.with(|m| m.borrow().clone());
        let leaks = vkit::ledger::end_case(false);
        let Ok((len, got)) = r else {
            return Err(format!("Panic: {form} with N = {n} panicked ({clones} Clone::clone calls) where the native literal [x; {n}] just moves x"));
        };
        if clones != 0 {
            return Err(format!("EvaluationCount: {clones} Clone::clone calls for {n} copies of x"));
        }
        if evaluated != 1 {
            return Err(format!("EvaluationCount: the repeated expression was evaluated {evaluated} times"));
        }
        if len != n || got.len() != n {
            return Err(format!("InferredLength: {form} gives length {len}, N = {n}"));
        }
        if n == 1 && got != made {
            return Err("Contents: the single element is not the value of x".into());
        }
        if !leaks.is_empty() {
            return Err(format!("Contents: ownership of x: {}", vkit::ledger::describe(&leaks)));
        }
        Ok(())
    });
}

fn solo_repeats(st: &mut Stats) {
    // the native literal is the reference: these lines must compile and move x
    let nat1: [Solo; 1] = [solo(); 1];
    let nat0: [Solo; 0] = [solo(); 0];
    drop((nat1, nat0));
    solo_case(st, "arr![x; Ty]", 1, || { let a = arr![solo(); U1]; (len_of(&a), a.iter().map(|s| s.0.key()).collect()) });
    solo_case(st, "arr![x; expr]", 1, || { let a = arr![solo(); 1]; (len_of(&a), a.iter().map(|s| s.0.key()).collect()) });
    solo_case(st, "box_arr![x; Ty]", 1, || { let a = box_arr![solo(); U1]; (len_of(&*a), a.iter().map(|s| s.0.key()).collect()) });
    solo_case(st, "box_arr![x; expr]", 1, || { let a = box_arr![solo(); 1]; (len_of(&*a), a.iter().map(|s| s.0.key()).collect()) });
    solo_case(st, "arr![x; Ty]", 0, || { let a = arr![solo(); U<0>]; (len_of(&a), a.iter().map(|s| s.0.key()).collect()) });
    solo_case(st, "arr![x; expr]", 0, || { let a = arr![solo(); 0]; (len_of(&a), a.iter().map(|s| s.0.key()).collect()) });
    solo_case(st, "box_arr![x; Ty]", 0, || { let a = box_arr![solo(); U<0>]; (len_of(&*a), a.iter().map(|s| s.0.key()).collect()) });
    solo_case(st, "box_arr![x; expr]", 0, || { let a = box_arr![solo(); 0]; (len_of(&*a), a.iter().map(|s| s.0.key()).collect()) });
}

include!("../arrmac_gen.rs");

fn main() {
    let args = Args::parse();
    let mut st = Stats::new("arrmac", &args);
    if args.part_on("lists") {
        all_lists_tok(&mut st, args.maxn);
        all_lists_u32(&mut st, args.maxn);
        all_lists_ztok(&mut st, args.maxn);
        all_temps(&mut st);
    }
    if args.part_on("repeats") {
        all_repeats(&mut st, args.maxn);
        solo_repeats(&mut st);
        if args.maxn >= 4096 {
            big_repeats(&mut st);
        }
    }
    if args.part_on("const") {
        const_cases(&mut st);
        // empty forms with an annotated type
        st.check_case("C20", "arr!", "Tok", || "C20 arr! empty annotated".to_string(), false, || {
            let a: GenericArray<Tok, U<0>> = arr![];
            let b: Box<GenericArray<Tok, U<0>>> = box_arr![];
            if len_of(&a) != 0 || len_of(&*b) != 0 {
                return Err("InferredLength: empty list".into());
            }
            Ok(())
        });
    }
    st.finish();
}
