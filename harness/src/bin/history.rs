//! history — C03: random chained ownership histories over a pool of arrays,
//! iterators, nested arrays, Vecs and boxed slices, against a shadow model
//! (Vec of element identities per object) and the ownership ledger.
//!
//! Every step draws an applicable operation, runs the real operation in the typed
//! arm (history_gen.rs), applies the Vec-level meaning to the shadow, and compares
//! every pooled object with its shadow.  At the end everything is dropped in random
//! order and the ledger must balance: every element dropped exactly once, none
//! observed after its drop, elements handed to the caller live until it drops them.

#![allow(clippy::type_complexity)]

use generic_array::functional::FunctionalSequence;
use generic_array::sequence::{Concat, Flatten, GenericSequence, Lengthen, Remove, Shorten, Split, Unflatten};
use generic_array::{GenericArray, GenericArrayIter};
use std::collections::VecDeque;
use vkit::typenum::U;
use vkit::{fault, ledger, Args, Elem, HeapTok, Rng, Stats, Tok, Tok24, ZTok};

type GA<E, N> = GenericArray<E, N>;

include!("../history_gen.rs");

thread_local! {
    /// how a "hidden" source answers size_hint(): 0 = (0, None); 1 = claims exactly the target
    /// length; 2 = (0, Some(target)); 3 = (target, None).  None of these rules the target out, so
    /// the outcome must follow the items actually delivered.
    static HINT_MODE: std::cell::Cell<u8> = const { std::cell::Cell::new(0) };
}

/// collect from `it` into an array of length n; `hide` replaces the size hint first
fn collect_from<E>(it: &mut dyn Iterator<Item = E>, n: usize, boxed: bool, hide: bool) -> Option<Arr<E>> {
    if hide {
        let claim = match HINT_MODE.with(|m| m.get()) {
            1 => (n, Some(n)),
            2 => (0, Some(n)),
            3 => (n, None),
            _ => (0, None),
        };
        let mut h = vkit::script::ClaimHint(vkit::script::NoHint(it), claim);
        if boxed { box_try_from_iter(&mut h, n) } else { arr_try_from_iter(&mut h, n) }
    } else if boxed {
        box_try_from_iter(it, n)
    } else {
        arr_try_from_iter(it, n)
    }
}

struct Pool<E: Elem> {
    arrs: Vec<(Arr<E>, Vec<u64>)>,
    its: Vec<(It<E>, VecDeque<u64>)>,
    nests: Vec<(Nest<E>, Vec<u64>)>,
    vecs: Vec<(Vec<E>, Vec<u64>)>,
    slices: Vec<(Box<[E]>, Vec<u64>)>,
    loose: Vec<(E, u64)>,
    trace: Vec<String>,
    steps: usize,
    ops_seen: std::collections::BTreeMap<&'static str, u64>,
}

fn keys<E: Elem>(s: &[E]) -> Vec<u64> {
    s.iter().map(|e| e.key()).collect()
}

fn eqk<E: Elem>(what: &str, got: &[u64], want: &[u64]) -> Result<(), String> {
    if got.len() != want.len() {
        return Err(format!("ModelMismatch: {what}: {} elements, model {}", got.len(), want.len()));
    }
    if E::KEYED && got != want {
        return Err(format!("ModelMismatch: {what}: {got:x?} != model {want:x?}"));
    }
    Ok(())
}

impl<E: Elem + Clone + Default + std::fmt::Debug> Pool<E> {
    fn new() -> Self {
        Pool { arrs: vec![], its: vec![], nests: vec![], vecs: vec![], slices: vec![], loose: vec![], trace: vec![], steps: 0, ops_seen: Default::default() }
    }

    fn verify(&self) -> Result<(), String> {
        for (i, (a, s)) in self.arrs.iter().enumerate() {
            eqk::<E>(&format!("array#{i}"), &keys(arr_slice(a)), s)?;
        }
        for (i, (it, s)) in self.its.iter().enumerate() {
            let v: Vec<u64> = s.iter().copied().collect();
            eqk::<E>(&format!("iter#{i}"), &keys(it_slice(it)), &v)?;
            if it_len(it) != v.len() {
                return Err(format!("ModelMismatch: iter#{i} len {} != {}", it_len(it), v.len()));
            }
        }
        for (i, (n, s)) in self.nests.iter().enumerate() {
            eqk::<E>(&format!("nested#{i}"), &nest_keys(n), s)?;
            eqk::<E>(&format!("nested#{i} (&flatten)"), &nest_flat_ref_keys(n), s)?;
        }
        for (i, (v, s)) in self.vecs.iter().enumerate() {
            eqk::<E>(&format!("vec#{i}"), &keys(v), s)?;
        }
        for (i, (v, s)) in self.slices.iter().enumerate() {
            eqk::<E>(&format!("boxslice#{i}"), &keys(v), s)?;
        }
        for (e, k) in &self.loose {
            if E::KEYED && e.key() != *k {
                return Err("ModelMismatch: element handed to the caller changed identity".into());
            }
        }
        // formatting an object looks at its elements (each element's Debug is an observation in
        // the ledger): a partially consumed iterator must only look at what it still holds
        if self.steps % 4 == 0 {
            for (it, s) in self.its.iter() {
                let txt = it_debug(it);
                if E::KEYED && !s.is_empty() && txt.len() < s.len() {
                    return Err("ModelMismatch: Debug of an iterator shows fewer elements than it holds".into());
                }
            }
            for (a, _) in self.arrs.iter().take(2) {
                let _ = arr_debug(a);
            }
        }
        Ok(())
    }

    fn note(&mut self, name: &'static str, detail: String) {
        *self.ops_seen.entry(name).or_insert(0) += 1;
        self.steps += 1;
        if self.trace.len() < 260 {
            self.trace.push(format!("{name}{detail}"));
        }
    }

    fn take_arr(&mut self, rng: &mut Rng) -> Option<(Arr<E>, Vec<u64>)> {
        if self.arrs.is_empty() {
            return None;
        }
        let i = rng.below(self.arrs.len());
        Some(self.arrs.swap_remove(i))
    }
    fn take_arr_where(&mut self, rng: &mut Rng, pred: impl Fn(usize) -> bool) -> Option<(Arr<E>, Vec<u64>)> {
        let idx: Vec<usize> = (0..self.arrs.len()).filter(|&i| pred(arr_len(&self.arrs[i].0))).collect();
        if idx.is_empty() {
            return None;
        }
        let i = idx[rng.below(idx.len())];
        Some(self.arrs.swap_remove(i))
    }

    fn give(&mut self, e: E) {
        let k = e.key();
        self.loose.push((e, k));
    }

    /// one random step; Ok(false) if nothing applicable was drawn
    fn step(&mut self, rng: &mut Rng) -> Result<bool, String> {
        let crowded = self.arrs.len() + self.its.len() + self.nests.len() + self.vecs.len() + self.slices.len() > 10;
        let choice = if self.arrs.is_empty() && self.its.is_empty() && self.vecs.is_empty() && self.slices.is_empty() && self.nests.is_empty() {
            0
        } else if crowded {
            60 + rng.below(40)
        } else {
            rng.below(100)
        };
        match choice {
            // ---------------------------------------------------------- construction
            0..=7 => {
                let n = rng.below(MAXLEN + 1);
                let how = rng.below(9);
                let a = match how {
                    6 => arr_from_builder_extend::<E>(n),
                    7 => arr_from_intrusive_extend::<E>(n),
                    8 => arr_from_builder_positions::<E>(n),
                    0 => arr_new::<E>(n),
                    1 => arr_default::<E>(n),
                    2 => arr_from_gen_ref::<E>(n),
                    3 => box_generate::<E>(n),
                    4 => box_default::<E>(n),
                    _ => {
                        let v: Vec<E> = (0..n).map(|_| E::fresh()).collect();
                        let mut it = v.into_iter();
                        arr_try_from_iter(&mut it, n).ok_or("ModelMismatch: try_from_iter refused exactly N items")?
                    }
                };
                let s = keys(arr_slice(&a));
                if s.len() != n {
                    return Err("ModelMismatch: constructed array has wrong length".into());
                }
                self.note("construct", format!("(n={n},how={how})"));
                self.arrs.push((a, s));
            }
            // ---------------------------------------------------------- by-value iteration
            8..=13 => {
                let Some((a, s)) = self.take_arr(rng) else { return Ok(false) };
                self.note("into_iter", format!("(n={})", s.len()));
                self.its.push((arr_into_iter(a), s.into_iter().collect()));
            }
            14..=29 => {
                if self.its.is_empty() {
                    return Ok(false);
                }
                let i = rng.below(self.its.len());
                let len = self.its[i].1.len();
                let sub = rng.below(12);
                match sub {
                    0 | 1 => {
                        let r = it_next(&mut self.its[i].0);
                        let w = self.its[i].1.pop_front();
                        self.note("iter.next", String::new());
                        self.yielded(r, w, rng)?;
                    }
                    2 | 3 => {
                        let r = it_next_back(&mut self.its[i].0);
                        let w = self.its[i].1.pop_back();
                        self.note("iter.next_back", String::new());
                        self.yielded(r, w, rng)?;
                    }
                    4 | 5 => {
                        let k = if rng.chance(1, 8) { usize::MAX } else { rng.below(len + 3) };
                        let r = it_nth(&mut self.its[i].0, k);
                        let m = &mut self.its[i].1;
                        for _ in 0..k.min(m.len()) {
                            m.pop_front();
                        }
                        let w = m.pop_front();
                        self.note("iter.nth", format!("({k})"));
                        self.yielded(r, w, rng)?;
                    }
                    6 | 7 => {
                        let k = if rng.chance(1, 8) { usize::MAX } else { rng.below(len + 3) };
                        let r = it_nth_back(&mut self.its[i].0, k);
                        let m = &mut self.its[i].1;
                        for _ in 0..k.min(m.len()) {
                            m.pop_back();
                        }
                        let w = m.pop_back();
                        self.note("iter.nth_back", format!("({k})"));
                        self.yielded(r, w, rng)?;
                    }
                    8 => {
                        let c = it_clone(&self.its[i].0);
                        let ck = keys(it_slice(&c));
                        if ck.len() != len {
                            return Err("ModelMismatch: iterator clone has a different number of elements".into());
                        }
                        self.note("iter.clone", String::new());
                        self.its.push((c, ck.into_iter().collect()));
                    }
                    9 => {
                        // write through as_mut_slice
                        if len > 0 {
                            let j = rng.below(len);
                            let x = E::fresh();
                            let k = x.key();
                            it_slice_mut(&mut self.its[i].0)[j] = x;
                            self.its[i].1[j] = k;
                            self.note("iter.as_mut_slice.write", format!("({j})"));
                        }
                    }
                    _ => {
                        // consuming
                        let (it, s) = self.its.swap_remove(i);
                        let want: Vec<u64> = s.iter().copied().collect();
                        match rng.below(7) {
                            0 => {
                                let mut got = Vec::new();
                                let mut kept = Vec::new();
                                it_fold(it, &mut |e| {
                                    got.push(e.key());
                                    kept.push(e);
                                });
                                self.note("iter.fold", String::new());
                                eqk::<E>("iter.fold order", &got, &want)?;
                                for e in kept {
                                    self.give(e);
                                }
                            }
                            1 => {
                                let mut got = Vec::new();
                                it_rfold(it, &mut |e| got.push(e.key()));
                                let mut w = want.clone();
                                w.reverse();
                                self.note("iter.rfold", String::new());
                                eqk::<E>("iter.rfold order", &got, &w)?;
                            }
                            2 => {
                                let c = it_count(it);
                                self.note("iter.count", String::new());
                                if c != want.len() {
                                    return Err(format!("ModelMismatch: count {c} != {}", want.len()));
                                }
                            }
                            3 => {
                                let r = it_last(it);
                                self.note("iter.last", String::new());
                                self.yielded(r, want.last().copied(), rng)?;
                            }
                            4 => {
                                self.note("iter.abandon", String::new());
                                drop(it);
                            }
                            5 => {
                                // collect the rest into an array of exactly the right length
                                let n = want.len();
                                let boxed = rng.chance(1, 2);
                                let mode = rng.below(6) as u8;
                                HINT_MODE.with(|m| m.set(mode));
                                self.note("iter.collect_right", format!("(n={n},boxed={boxed},claim_mode={mode})"));
                                let a = if mode < 4 { it_collect_hidden(it, n, boxed) } else if boxed { it_collect_boxed(it, n) } else { it_collect(it, n) };
                                let a = a.ok_or("ModelMismatch: collecting exactly N remaining items was refused")?;
                                self.arrs.push((a, want));
                            }
                            _ => {
                                // wrong length: everything pulled or left must be dropped
                                let n = want.len();
                                let wrong = if n == 0 || rng.chance(1, 2) { (n + 1 + rng.below(2)).min(MAXLEN) } else { n - 1 };
                                if wrong == n {
                                    drop(it);
                                } else {
                                    let boxed = rng.chance(1, 2);
                                    let hide = rng.chance(2, 3);
                                    let mode = rng.below(4) as u8;
                                    HINT_MODE.with(|m| m.set(mode));
                                    self.note("iter.collect_wrong", format!("(have={n},want={wrong},boxed={boxed},hide_hint={hide},claim_mode={mode})"));
                                    let a = if hide {
                                        let v: Vec<E> = Vec::new();
                                        drop(v);
                                        it_collect_hidden(it, wrong, boxed)
                                    } else if boxed { it_collect_boxed(it, wrong) } else { it_collect(it, wrong) };
                                    if a.is_some() {
                                        return Err("ModelMismatch: collecting a wrong number of items succeeded".into());
                                    }
                                }
                            }
                        }
                    }
                }
            }
            // ---------------------------------------------------------- map / zip / fold
            30..=41 => {
                let sub = rng.below(12);
                match sub {
                    0..=3 => {
                        let Some((a, s)) = self.take_arr(rng) else { return Ok(false) };
                        let replace = rng.chance(1, 2);
                        let boxed = rng.chance(1, 3);
                        let mut seen = Vec::new();
                        let mut made = Vec::new();
                        let mut f = |e: E| {
                            seen.push(e.key());
                            if replace {
                                drop(e);
                                let x = E::fresh();
                                made.push(x.key());
                                x
                            } else {
                                made.push(e.key());
                                e
                            }
                        };
                        let b = if boxed { arr_map_box(a, &mut f) } else { arr_map_owned(a, &mut f) };
                        self.note("map.owned", format!("(n={},replace={replace},boxed={boxed})", s.len()));
                        eqk::<E>("map visit order", &seen, &s)?;
                        self.arrs.push((b, made));
                    }
                    4 | 5 => {
                        if self.arrs.is_empty() {
                            return Ok(false);
                        }
                        let i = rng.below(self.arrs.len());
                        let mut seen = Vec::new();
                        let mut made = Vec::new();
                        let by_mut = rng.chance(1, 2);
                        let b = if by_mut {
                            arr_map_mut(&mut self.arrs[i].0, &mut |e: &mut E| {
                                seen.push(e.key());
                                let x = E::fresh();
                                made.push(x.key());
                                x
                            })
                        } else {
                            arr_map_ref(&self.arrs[i].0, &mut |e: &E| {
                                seen.push(e.key());
                                let x = e.clone();
                                made.push(x.key());
                                x
                            })
                        };
                        self.note("map.by_ref", format!("(mut={by_mut})"));
                        let s = self.arrs[i].1.clone();
                        eqk::<E>("map(&) visit order", &seen, &s)?;
                        self.arrs.push((b, made));
                    }
                    6 | 7 => {
                        let Some((a, s)) = self.take_arr(rng) else { return Ok(false) };
                        let boxed = rng.chance(1, 3);
                        let mut got = Vec::new();
                        let mut kept: Vec<E> = Vec::new();
                        let keep = rng.chance(1, 2);
                        let mut f = |e: E| {
                            got.push(e.key());
                            if keep {
                                kept.push(e);
                            }
                        };
                        if boxed { arr_fold_box(a, &mut f) } else { arr_fold_owned(a, &mut f) };
                        self.note("fold.owned", format!("(n={},boxed={boxed},keep={keep})", s.len()));
                        eqk::<E>("fold visit order", &got, &s)?;
                        for e in kept {
                            self.give(e);
                        }
                    }
                    _ if rng.chance(1, 3) => {
                        // zip with an array of another element type: plain (no drop glue) or a
                        // different droppable one, on either side, so that exactly one operand
                        // of the zip carries tracked elements
                        let Some((a, s)) = self.take_arr(rng) else { return Ok(false) };
                        let form = rng.below(7);
                        let replace = rng.chance(1, 2);
                        let mut seen = Vec::new();
                        let mut idx = Vec::new();
                        let mut made = Vec::new();
                        let mut f = |e: E, i: u64| {
                            seen.push(e.key());
                            idx.push(i);
                            if replace {
                                drop(e);
                                let x = E::fresh();
                                made.push(x.key());
                                x
                            } else {
                                made.push(e.key());
                                e
                            }
                        };
                        let out = match form {
                            0 => arr_zipx_plain_right_oo(a, &mut f),
                            1 => arr_zipx_plain_left_oo(a, &mut f),
                            2 => arr_zipx_plain_right_or(a, &mut f),
                            3 => arr_zipx_plain_left_ro(a, &mut f),
                            4 => arr_zipx_string_right_oo(a, &mut f),
                            5 => arr_zipx_string_left_oo(a, &mut f),
                            _ => arr_zipx_plain_right_bb(a, &mut f),
                        };
                        self.note("zip.mixed", format!("(n={},form={form},replace={replace})", s.len()));
                        eqk::<E>("mixed zip visit order", &seen, &s)?;
                        if form < 4 || form == 6 {
                            let want: Vec<u64> = (0..s.len() as u64).collect();
                            if idx != want {
                                return Err(format!("ModelMismatch: mixed zip paired element i with {idx:?}"));
                            }
                        }
                        self.arrs.push((out, made));
                    }
                    _ => {
                        // zip: need two arrays of equal length
                        if self.arrs.len() < 2 {
                            return Ok(false);
                        }
                        let i = rng.below(self.arrs.len());
                        let li = arr_len(&self.arrs[i].0);
                        let cands: Vec<usize> = (0..self.arrs.len()).filter(|&j| j != i && arr_len(&self.arrs[j].0) == li).collect();
                        let j = if cands.is_empty() {
                            // make a partner
                            let a = arr_new::<E>(li);
                            let s = keys(arr_slice(&a));
                            self.arrs.push((a, s));
                            self.arrs.len() - 1
                        } else {
                            cands[rng.below(cands.len())]
                        };
                        let form = rng.below(8);
                        let keep_left = rng.chance(1, 2);
                        let (hi, lo) = if i > j { (i, j) } else { (j, i) };
                        let (xa, xs) = self.arrs.swap_remove(hi);
                        let (ya, ys) = self.arrs.swap_remove(lo);
                        // (a, sa) is the left operand
                        let ((mut a, sa), (mut b, sb)) = if rng.chance(1, 2) { ((xa, xs), (ya, ys)) } else { ((ya, ys), (xa, xs)) };
                        let mut seen_l = Vec::new();
                        let mut seen_r = Vec::new();
                        let mut made = Vec::new();
                        let out;
                        macro_rules! owned_pick {
                            () => {
                                |l: E, r: E| {
                                    seen_l.push(l.key());
                                    seen_r.push(r.key());
                                    let x = if keep_left { drop(r); l } else { drop(l); r };
                                    made.push(x.key());
                                    x
                                }
                            };
                        }
                        match form {
                            0 => {
                                out = arr_zip_oo(a, b, &mut owned_pick!());
                            }
                            7 => {
                                out = arr_zip_bb(a, b, &mut owned_pick!());
                            }
                            1 => {
                                out = arr_zip_or(a, &b, &mut |l: E, r: &E| {
                                    seen_l.push(l.key());
                                    seen_r.push(r.key());
                                    made.push(l.key());
                                    l
                                });
                                self.arrs.push((b, sb.clone()));
                            }
                            2 => {
                                out = arr_zip_om(a, &mut b, &mut |l: E, r: &mut E| {
                                    seen_l.push(l.key());
                                    seen_r.push(r.key());
                                    // swap through the &mut: the old right element becomes the output
                                    let old = core::mem::replace(r, l);
                                    made.push(old.key());
                                    old
                                });
                                // b now holds a's elements
                                self.arrs.push((b, sa.clone()));
                            }
                            3 => {
                                out = arr_zip_ro(&a, b, &mut |l: &E, r: E| {
                                    seen_l.push(l.key());
                                    seen_r.push(r.key());
                                    made.push(r.key());
                                    r
                                });
                                self.arrs.push((a, sa.clone()));
                            }
                            4 => {
                                out = arr_zip_rr(&a, &b, &mut |l: &E, r: &E| {
                                    seen_l.push(l.key());
                                    seen_r.push(r.key());
                                    let x = E::fresh();
                                    made.push(x.key());
                                    x
                                });
                                self.arrs.push((a, sa.clone()));
                                self.arrs.push((b, sb.clone()));
                            }
                            5 => {
                                out = arr_zip_mo(&mut a, b, &mut |l: &mut E, r: E| {
                                    seen_l.push(l.key());
                                    seen_r.push(r.key());
                                    let old = core::mem::replace(l, r);
                                    made.push(old.key());
                                    old
                                });
                                self.arrs.push((a, sb.clone()));
                            }
                            _ => {
                                out = arr_zip_mm(&mut a, &mut b, &mut |l: &mut E, r: &mut E| {
                                    seen_l.push(l.key());
                                    seen_r.push(r.key());
                                    core::mem::swap(l, r);
                                    let x = E::fresh();
                                    made.push(x.key());
                                    x
                                });
                                self.arrs.push((a, sb.clone()));
                                self.arrs.push((b, sa.clone()));
                            }
                        }
                        self.note("zip", format!("(n={li},form={form},keep_left={keep_left})"));
                        eqk::<E>("zip left visit order", &seen_l, &sa)?;
                        eqk::<E>("zip right visit order", &seen_r, &sb)?;
                        self.arrs.push((out, made));
                    }
                }
            }
            // ---------------------------------------------------------- sequence ops
            42..=59 => {
                let sub = rng.below(14);
                match sub {
                    0 | 1 => {
                        let Some((a, mut s)) = self.take_arr_where(rng, |l| l < MAXLEN) else { return Ok(false) };
                        let x = if !self.loose.is_empty() && rng.chance(1, 2) { self.loose.swap_remove(rng.below(self.loose.len())).0 } else { E::fresh() };
                        let front = rng.chance(1, 2);
                        let b = if front {
                            s.insert(0, x.key());
                            arr_prepend(a, x)
                        } else {
                            s.push(x.key());
                            arr_append(a, x)
                        };
                        self.note(if front { "prepend" } else { "append" }, String::new());
                        self.arrs.push((b, s));
                    }
                    2 | 3 => {
                        let Some((a, mut s)) = self.take_arr_where(rng, |l| l >= 1) else { return Ok(false) };
                        let front = rng.chance(1, 2);
                        let (b, e, w) = if front {
                            let (e, b) = arr_pop_front(a);
                            (b, e, s.remove(0))
                        } else {
                            let (b, e) = arr_pop_back(a);
                            (b, e, s.pop().unwrap())
                        };
                        self.note(if front { "pop_front" } else { "pop_back" }, String::new());
                        self.arrs.push((b, s));
                        self.yielded(Some(e), Some(w), rng)?;
                    }
                    4 | 5 => {
                        let Some((a, s)) = self.take_arr(rng) else { return Ok(false) };
                        let k = rng.below(s.len() + 1);
                        let (h, t) = arr_split(a, k);
                        self.note("split", format!("(n={},k={k})", s.len()));
                        self.arrs.push((h, s[..k].to_vec()));
                        self.arrs.push((t, s[k..].to_vec()));
                    }
                    6 | 7 => {
                        if self.arrs.len() < 2 {
                            return Ok(false);
                        }
                        let i = rng.below(self.arrs.len());
                        let li = arr_len(&self.arrs[i].0);
                        let cands: Vec<usize> = (0..self.arrs.len()).filter(|&j| j != i && arr_len(&self.arrs[j].0) + li <= MAXLEN).collect();
                        if cands.is_empty() {
                            return Ok(false);
                        }
                        let j = cands[rng.below(cands.len())];
                        let (hi, lo) = if i > j { (i, j) } else { (j, i) };
                        let x = self.arrs.swap_remove(hi);
                        let y = self.arrs.swap_remove(lo);
                        let ((a, mut sa), (b, sb)) = if rng.chance(1, 2) { (x, y) } else { (y, x) };
                        self.note("concat", format!("({}+{})", sa.len(), sb.len()));
                        sa.extend(sb);
                        self.arrs.push((arr_concat(a, b), sa));
                    }
                    8 | 9 => {
                        let Some((a, mut s)) = self.take_arr_where(rng, |l| l >= 1) else { return Ok(false) };
                        let i = rng.below(s.len());
                        let swap = rng.chance(1, 2);
                        let (e, b) = if swap { arr_swap_remove(a, i) } else { arr_remove(a, i) };
                        let w = if swap { s.swap_remove(i) } else { s.remove(i) };
                        self.note(if swap { "swap_remove" } else { "remove" }, format!("(n={},i={i})", s.len() + 1));
                        self.arrs.push((b, s));
                        self.yielded(Some(e), Some(w), rng)?;
                    }
                    10 | 11 => {
                        let Some((a, s)) = self.take_arr(rng) else { return Ok(false) };
                        let n = s.len();
                        let divs: Vec<usize> = (1..=MAXLEN).filter(|d| if n == 0 { true } else { n % d == 0 }).collect();
                        let d = divs[rng.below(divs.len())];
                        self.note("unflatten", format!("(n={n},inner={d})"));
                        self.nests.push((arr_unflatten(a, d), s));
                    }
                    _ => {
                        if self.nests.is_empty() {
                            return Ok(false);
                        }
                        let i = rng.below(self.nests.len());
                        let (nst, s) = self.nests.swap_remove(i);
                        self.note("flatten", format!("{:?}", nest_shape(&nst)));
                        self.arrs.push((nest_flatten(nst), s));
                    }
                }
            }
            // ---------------------------------------------------------- conversions
            60..=81 => {
                let sub = rng.below(16);
                match sub {
                    0 | 1 => {
                        let Some((a, s)) = self.take_arr(rng) else { return Ok(false) };
                        let route = rng.below(4);
                        self.note("native_roundtrip", format!("(n={},route={route})", s.len()));
                        self.arrs.push((arr_native_roundtrip(a, route), s));
                    }
                    2 => {
                        let Some((a, s)) = self.take_arr(rng) else { return Ok(false) };
                        self.note("tuple_roundtrip", format!("(n={})", s.len()));
                        self.arrs.push((arr_tuple_roundtrip(a), s));
                    }
                    3 | 4 => {
                        let Some((a, s)) = self.take_arr(rng) else { return Ok(false) };
                        let how = rng.below(3);
                        self.note("to_vec", format!("(how={how})"));
                        let v = match how {
                            0 => arr_to_vec(a),
                            1 => box_into_vec(a),
                            _ => box_into_iter(a).collect(),
                        };
                        self.vecs.push((v, s));
                    }
                    5 | 6 => {
                        let Some((a, s)) = self.take_arr(rng) else { return Ok(false) };
                        let how = rng.below(2);
                        self.note("to_boxed_slice", format!("(how={how})"));
                        let v = if how == 0 { arr_to_boxed_slice(a) } else { box_into_boxed_slice(a) };
                        self.slices.push((v, s));
                    }
                    7 | 8 | 9 => {
                        if self.vecs.is_empty() {
                            return Ok(false);
                        }
                        let i = rng.below(self.vecs.len());
                        let (mut v, s) = self.vecs.swap_remove(i);
                        if s.len() > MAXLEN {
                            self.vecs.push((v, s));
                            return Ok(false);
                        }
                        if rng.chance(1, 3) {
                            v.reserve(rng.below(5) + 1); // spare capacity
                        }
                        let right = rng.chance(3, 4);
                        let n = if right { s.len() } else if s.len() == 0 || rng.chance(1, 2) { (s.len() + 1).min(MAXLEN) } else { s.len() - 1 };
                        let how = rng.below(4);
                        let hide = rng.chance(1, 2);
                        let mode = rng.below(4) as u8;
                        HINT_MODE.with(|m| m.set(mode));
                        self.note("from_vec", format!("(len={},n={n},how={how},hide_hint={},claim_mode={mode})", s.len(), hide && how >= 2));
                        let r = match how {
                            0 => arr_try_from_vec(v, n),
                            1 => box_try_from_vec(v, n),
                            2 => {
                                let mut it = v.into_iter();
                                collect_from(&mut it, n, false, hide)
                            }
                            _ => {
                                let mut it = v.into_iter();
                                collect_from(&mut it, n, true, hide)
                            }
                        };
                        match (r, n == s.len()) {
                            (Some(a), true) => self.arrs.push((a, s)),
                            (None, false) => {}
                            (Some(_), false) => return Err("ModelMismatch: wrong-length Vec accepted".into()),
                            (None, true) => return Err("ModelMismatch: right-length Vec refused".into()),
                        }
                    }
                    10 | 11 => {
                        if self.slices.is_empty() {
                            return Ok(false);
                        }
                        let i = rng.below(self.slices.len());
                        let (v, s) = self.slices.swap_remove(i);
                        if s.len() > MAXLEN {
                            self.slices.push((v, s));
                            return Ok(false);
                        }
                        let right = rng.chance(3, 4);
                        let n = if right { s.len() } else if s.len() == 0 || rng.chance(1, 2) { (s.len() + 1).min(MAXLEN) } else { s.len() - 1 };
                        let how = rng.below(2);
                        self.note("from_boxed_slice", format!("(len={},n={n},how={how})", s.len()));
                        let r = if how == 0 { arr_try_from_boxed(v, n) } else { box_try_from_boxed_slice(v, n) };
                        match (r, n == s.len()) {
                            (Some(a), true) => self.arrs.push((a, s)),
                            (None, false) => {}
                            (Some(_), false) => return Err("ModelMismatch: wrong-length Box<[T]> accepted".into()),
                            (None, true) => return Err("ModelMismatch: right-length Box<[T]> refused".into()),
                        }
                    }
                    12 | 13 => {
                        if self.arrs.is_empty() {
                            return Ok(false);
                        }
                        let i = rng.below(self.arrs.len());
                        let boxed = rng.chance(1, 2);
                        let c = if boxed { box_clone(&self.arrs[i].0) } else { arr_clone(&self.arrs[i].0) };
                        let ck = keys(arr_slice(&c));
                        if ck.len() != self.arrs[i].1.len() {
                            return Err("ModelMismatch: clone has a different length".into());
                        }
                        self.note("clone", format!("(boxed={boxed})"));
                        self.arrs.push((c, ck));
                    }
                    14 => {
                        // write through DerefMut
                        if self.arrs.is_empty() {
                            return Ok(false);
                        }
                        let i = rng.below(self.arrs.len());
                        let l = self.arrs[i].1.len();
                        if l > 0 {
                            let j = rng.below(l);
                            let x = E::fresh();
                            self.arrs[i].1[j] = x.key();
                            arr_slice_mut(&mut self.arrs[i].0)[j] = x;
                            self.note("slice_write", format!("({j})"));
                        }
                    }
                    _ => {
                        // loose elements into a Vec object
                        if self.loose.len() >= 2 {
                            let take = rng.range(1, self.loose.len().min(MAXLEN));
                            let mut v = Vec::new();
                            let mut s = Vec::new();
                            for _ in 0..take {
                                let (e, k) = self.loose.swap_remove(rng.below(self.loose.len()));
                                s.push(k);
                                v.push(e);
                            }
                            self.note("loose_to_vec", format!("({take})"));
                            self.vecs.push((v, s));
                        }
                    }
                }
            }
            // ---------------------------------------------------------- dropping
            _ => {
                let which = rng.below(6);
                match which {
                    0 if !self.arrs.is_empty() => {
                        let i = rng.below(self.arrs.len());
                        self.note("drop.array", String::new());
                        drop(self.arrs.swap_remove(i));
                    }
                    1 if !self.its.is_empty() => {
                        let i = rng.below(self.its.len());
                        self.note("drop.iter", String::new());
                        drop(self.its.swap_remove(i));
                    }
                    2 if !self.nests.is_empty() => {
                        let i = rng.below(self.nests.len());
                        self.note("drop.nested", String::new());
                        drop(self.nests.swap_remove(i));
                    }
                    3 if !self.vecs.is_empty() => {
                        let i = rng.below(self.vecs.len());
                        self.note("drop.vec", String::new());
                        drop(self.vecs.swap_remove(i));
                    }
                    4 if !self.slices.is_empty() => {
                        let i = rng.below(self.slices.len());
                        self.note("drop.boxslice", String::new());
                        drop(self.slices.swap_remove(i));
                    }
                    5 if !self.loose.is_empty() => {
                        let i = rng.below(self.loose.len());
                        self.note("drop.loose", String::new());
                        drop(self.loose.swap_remove(i));
                    }
                    _ => return Ok(false),
                }
            }
        }
        Ok(true)
    }

    /// an element came back to the caller: identity as the model says; keep it or drop it
    fn yielded(&mut self, r: Option<E>, want: Option<u64>, rng: &mut Rng) -> Result<(), String> {
        match (r, want) {
            (None, None) => Ok(()),
            (Some(e), Some(w)) => {
                if E::KEYED && e.key() != w {
                    return Err(format!("ModelMismatch: returned element {:x}, model {:x}", e.key(), w));
                }
                if rng.chance(1, 2) {
                    self.give(e);
                }
                Ok(())
            }
            (Some(_), None) => Err("ModelMismatch: returned an element where the model has none".into()),
            (None, Some(_)) => Err("ModelMismatch: returned None where the model has an element".into()),
        }
    }

    fn drop_all(mut self, rng: &mut Rng) {
        // random order across object kinds
        loop {
            let total = self.arrs.len() + self.its.len() + self.nests.len() + self.vecs.len() + self.slices.len() + self.loose.len();
            if total == 0 {
                break;
            }
            match rng.below(6) {
                0 if !self.arrs.is_empty() => drop(self.arrs.swap_remove(rng.below(self.arrs.len()))),
                1 if !self.its.is_empty() => drop(self.its.swap_remove(rng.below(self.its.len()))),
                2 if !self.nests.is_empty() => drop(self.nests.swap_remove(rng.below(self.nests.len()))),
                3 if !self.vecs.is_empty() => drop(self.vecs.swap_remove(rng.below(self.vecs.len()))),
                4 if !self.slices.is_empty() => drop(self.slices.swap_remove(rng.below(self.slices.len()))),
                5 if !self.loose.is_empty() => drop(self.loose.swap_remove(rng.below(self.loose.len()))),
                _ => {}
            }
        }
    }
}

fn run_histories<E: Elem + Clone + Default + std::fmt::Debug>(st: &mut Stats, seed: u64, count: u64) {
    for h in 0..count {
        let Some(desc) = st.select(|| format!("C03 history {} seed={seed} index={h}", E::NAME)) else { continue };
        ledger::begin_case();
        fault::reset();
        vkit::tok::reset_plain_counter();
        let mut rng = Rng::for_case(seed ^ 0xC03, h ^ ((E::NAME.len() as u64) << 40));
        let steps = rng.range(40, 200);
        let mut trace_out: Vec<String> = Vec::new();
        let mut ops_seen = std::collections::BTreeMap::new();
        let mut executed = 0usize;
        let r = vkit::catch(|| -> Result<(), String> {
            let mut pool = Pool::<E>::new();
            let mut res = Ok(());
            for _ in 0..steps {
                match pool.step(&mut rng) {
                    Ok(true) => {
                        if let Err(e) = pool.verify() {
                            res = Err(e);
                            break;
                        }
                    }
                    Ok(false) => {}
                    Err(e) => {
                        res = Err(e);
                        break;
                    }
                }
            }
            trace_out = std::mem::take(&mut pool.trace);
            ops_seen = std::mem::take(&mut pool.ops_seen);
            executed = pool.steps;
            pool.drop_all(&mut rng);
            res
        });
        let res = match r {
            vkit::Caught::Returned(x) => x,
            vkit::Caught::Injected(..) => Err("HarnessBug: injected".into()),
            vkit::Caught::Other(m) => Err(format!("Panic: {m} ({})", fault::last_panic())),
        };
        let last_op = trace_out.last().cloned().unwrap_or_default();
        let last_name = last_op.split('(').next().unwrap_or("?").to_string();
        if let Err(e) = res {
            let kind = e.split(':').next().unwrap_or("Mismatch").to_string();
            let tail: Vec<String> = trace_out.iter().rev().take(25).rev().cloned().collect();
            st.violation("C03", &format!("history:{last_name}|{}|{kind}", E::NAME), &desc, &format!("{e}; last ops: {}", tail.join(" ")));
        }
        let v = ledger::end_case(false);
        if !v.is_empty() {
            // attribute to the set of operation kinds in this history (the ledger fires at drop time)
            let tail: Vec<String> = trace_out.iter().rev().take(25).rev().cloned().collect();
            st.violation(
                "C03",
                &format!("history|{}|{}", E::NAME, ledger::kinds(&v)),
                &desc,
                &format!("{}; ops in history: {}", ledger::describe(&v), tail.join(" ")),
            );
        }
        for (k, n) in &ops_seen {
            st.count(&format!("op.{k}"), *n);
        }
        st.count("steps", executed as u64);
        st.done(&desc, executed >= 10);
    }
}

fn main() {
    let args = Args::parse();
    let mut st = Stats::new("history", &args);
    let n = args.budget.unwrap_or(if args.thorough() { 50_000 } else { 600 });
    if args.flavour_on("Tok") {
        run_histories::<Tok>(&mut st, args.seed, n);
    }
    if args.flavour_on("ZTok") {
        run_histories::<ZTok>(&mut st, args.seed, n / 3 + 1);
    }
    if args.flavour_on("Tok24") {
        run_histories::<Tok24>(&mut st, args.seed, n / 3 + 1);
    }
    if args.flavour_on("HeapTok") {
        run_histories::<HeapTok>(&mut st, args.seed, n);
    }
    if args.flavour_on("u32") {
        run_histories::<u32>(&mut st, args.seed, n / 3 + 1);
    }
    if args.flavour_on("String") {
        run_histories::<String>(&mut st, args.seed, n / 3 + 1);
    }
    st.finish();
}
