//! faults — fault enumeration for C04 (panic in caller-supplied code) and
//! C05 (panicking element destructor).
//!
//! C04: for every operation-form, every N in the table, every callback index k
//! (k == calls means "no fault", the control), inject a panic at the k-th call of
//! the closure / Clone::clone / Default::default / Iterator::next.  Oracle: the
//! injected panic propagates, and after the harness dropped what it holds the
//! ledger is balanced (no Leak, DoubleDrop, UnknownDrop, UseAfterDrop).
//!
//! C05: for every operation that drops elements internally, every iterator
//! position, every argument and every choice of the single element whose
//! destructor panics: no DoubleDrop / UseAfterDrop / UnknownDrop (Leak waived).

#![allow(clippy::too_many_arguments, clippy::type_complexity)]

use generic_array::functional::FunctionalSequence;
use generic_array::internals::{ArrayBuilder, ArrayConsumer, IntrusiveArrayBuilder};
use generic_array::sequence::GenericSequence;
use generic_array::{ArrayLength, GenericArray, GenericArrayIter};
use vkit::fault::{self, Fuse};
use vkit::ledger;
use vkit::script::{Hint, ScriptIter};
use vkit::typenum::U;
use vkit::{catch, Args, Caught, Elem, HeapTok, Stats, Tok, Tok24, TokX, ZTok};

type GA<E, N> = GenericArray<E, N>;

fn mk<E: Elem, N: ArrayLength>() -> GA<E, N> {
    GA::<E, N>::generate(|_| E::fresh())
}

// ------------------------------------------------------------------ C04 runner

struct Ctx<'a> {
    st: &'a mut Stats,
    args: &'a Args,
}

/// Run one C04 case.  `calls`: how many callback invocations the operation makes
/// when nothing fails; k in 0..calls is a fault index, k == calls the control.
fn c04_case<R>(cx: &mut Ctx, op: &str, flav: &str, n: usize, extra: &str, k: usize, calls: usize, body: impl FnOnce(Option<usize>) -> R) {
    let Some(desc) = cx.st.select(|| format!("C04 {op} {flav} N={n}{extra} k={k}/{calls}")) else { return };
    ledger::begin_case();
    fault::reset();
    let fault_at = if k < calls { Some(k) } else { None };
    let r = catch(|| {
        let out = body(fault_at);
        drop(out);
    });
    let fired = fault::fired();
    let live_at = fault::live_at_fault();
    let opform = format!("{op}|{flav}");
    cx.st.op(&format!("C04 {op} N={n}"));
    match (&r, fault_at) {
        (Caught::Injected(..), Some(_)) => {}
        (Caught::Returned(()), None) => {}
        (Caught::Returned(()), Some(_)) => {
            if fired {
                // the fault fired but the operation swallowed it
                cx.st.violation("C04", &format!("{opform}|PanicSwallowed"), &desc, "injected panic did not propagate");
            } else {
                cx.st.count("c04.fault_index_not_reached", 1);
            }
        }
        (Caught::Injected(s, i), None) => {
            cx.st.violation("C04", &format!("{opform}|HarnessBug"), &desc, &format!("injected {s}@{i} without arming"));
        }
        (Caught::Other(m), _) => {
            cx.st.violation("C04", &format!("{opform}|OtherPanic"), &desc, &format!("unexpected panic: {m} ({})", fault::last_panic()));
        }
    }
    let clean = cx.st.judge_ledger("C04", &opform, &desc, false);
    let _ = clean;
    cx.st.done(&desc, fired && live_at > 0);
    if fired {
        cx.st.count("c04.faults_fired", 1);
    }
    let _ = cx.args;
}

// ------------------------------------------------------------------ C04 operations

fn c04_generate<E: Elem, N: ArrayLength>(cx: &mut Ctx) {
    let n = N::USIZE;
    for k in 0..=n {
        c04_case(cx, "generate.owned", E::NAME, n, "", k, n, |fa| {
            let mut f = Fuse::new("gen", fa);
            GA::<E, N>::generate(|_| {
                f.tick();
                E::fresh()
            })
        });
        c04_case(cx, "generate.ref", E::NAME, n, "", k, n, |fa| {
            let mut f = Fuse::new("gen", fa);
            <&GA<E, N> as GenericSequence<E>>::generate(|_| {
                f.tick();
                E::fresh()
            })
        });
        c04_case(cx, "generate.mut", E::NAME, n, "", k, n, |fa| {
            let mut f = Fuse::new("gen", fa);
            <&mut GA<E, N> as GenericSequence<E>>::generate(|_| {
                f.tick();
                E::fresh()
            })
        });
        c04_case(cx, "generate.box", E::NAME, n, "", k, n, |fa| {
            let mut f = Fuse::new("gen", fa);
            <Box<GA<E, N>> as GenericSequence<E>>::generate(|_| {
                f.tick();
                E::fresh()
            })
        });
    }
}

fn c04_default<E: Elem + Default, N: ArrayLength>(cx: &mut Ctx) {
    let n = N::USIZE;
    for k in 0..=n {
        c04_case(cx, "default", E::NAME, n, "", k, n, |fa| {
            if let Some(k) = fa {
                fault::arm_default(k);
            }
            GA::<E, N>::default()
        });
        c04_case(cx, "default_boxed", E::NAME, n, "", k, n, |fa| {
            if let Some(k) = fa {
                fault::arm_default(k);
            }
            GA::<E, N>::default_boxed()
        });
    }
}

/// map over the four receiver forms; `late`: the closure disposes of its argument
/// before the fault point (the value handed to the closure is already gone).
fn c04_map<E: Elem, U2: Elem, N: ArrayLength>(cx: &mut Ctx) {
    let n = N::USIZE;
    let fl = format!("{}>{}", E::NAME, U2::NAME);
    for k in 0..=n {
        for late in [false, true] {
            let ex = if late { " late" } else { "" };
            c04_case(cx, "map.owned", &fl, n, ex, k, n, |fa| {
                let mut f = Fuse::new("map", fa);
                let a: GA<E, N> = mk();
                a.map(|x| {
                    if late {
                        drop(x);
                        f.tick();
                    } else {
                        f.tick();
                        drop(x);
                    }
                    U2::fresh()
                })
            });
            c04_case(cx, "map.box", &fl, n, ex, k, n, |fa| {
                let mut f = Fuse::new("map", fa);
                let a: Box<GA<E, N>> = Box::new(mk());
                a.map(|x| {
                    if late {
                        drop(x);
                        f.tick();
                    } else {
                        f.tick();
                        drop(x);
                    }
                    U2::fresh()
                })
            });
        }
        c04_case(cx, "map.ref", &fl, n, "", k, n, |fa| {
            let mut f = Fuse::new("map", fa);
            let a: GA<E, N> = mk();
            let out = (&a).map(|x| {
                let _ = x.key();
                f.tick();
                U2::fresh()
            });
            (out, a)
        });
        c04_case(cx, "map.mut", &fl, n, "", k, n, |fa| {
            let mut f = Fuse::new("map", fa);
            let mut a: GA<E, N> = mk();
            let out = (&mut a).map(|x| {
                let _ = x.key();
                f.tick();
                U2::fresh()
            });
            (out, a)
        });
    }
}

fn c04_fold<E: Elem, N: ArrayLength>(cx: &mut Ctx) {
    let n = N::USIZE;
    for k in 0..=n {
        // the accumulator takes ownership of every element handed to the closure
        c04_case(cx, "fold.owned", E::NAME, n, "", k, n, |fa| {
            let mut f = Fuse::new("fold", fa);
            let a: GA<E, N> = mk();
            a.fold(Vec::<E>::new(), |mut acc, x| {
                f.tick();
                acc.push(x);
                acc
            })
        });
        c04_case(cx, "fold.box", E::NAME, n, "", k, n, |fa| {
            let mut f = Fuse::new("fold", fa);
            let a: Box<GA<E, N>> = Box::new(mk());
            a.fold(Vec::<E>::new(), |mut acc, x| {
                f.tick();
                acc.push(x);
                acc
            })
        });
        c04_case(cx, "fold.ref", E::NAME, n, "", k, n, |fa| {
            let mut f = Fuse::new("fold", fa);
            let a: GA<E, N> = mk();
            let r = (&a).fold(0u64, |acc, x| {
                f.tick();
                acc.wrapping_mul(31).wrapping_add(x.key())
            });
            (r, a)
        });
        c04_case(cx, "fold.mut", E::NAME, n, "", k, n, |fa| {
            let mut f = Fuse::new("fold", fa);
            let mut a: GA<E, N> = mk();
            let r = (&mut a).fold(0u64, |acc, x| {
                f.tick();
                acc.wrapping_mul(31).wrapping_add(x.key())
            });
            (r, a)
        });
    }
}

macro_rules! zip_forms {
    ($( $fname:ident : $label:literal, |$a:ident, $b:ident| $lexpr:expr, $rexpr:expr ; )*) => {
        fn c04_zip<L: Elem, R: Elem, U2: Elem, N: ArrayLength>(cx: &mut Ctx) {
            let n = N::USIZE;
            let fl = format!("{}x{}>{}", L::NAME, R::NAME, U2::NAME);
            for k in 0..=n {
                $(
                    c04_case(cx, concat!("zip.", $label), &fl, n, "", k, n, |fa| {
                        let mut f = Fuse::new("zip", fa);
                        #[allow(unused_mut)]
                        let mut $a: GA<L, N> = mk();
                        #[allow(unused_mut)]
                        let mut $b: GA<R, N> = mk();
                        let out: GA<U2, N> = ($lexpr).zip($rexpr, |_l, _r| {
                            f.tick();
                            U2::fresh()
                        });
                        out
                    });
                )*
                c04_case(cx, "zip.box_box", &fl, n, "", k, n, |fa| {
                    let mut f = Fuse::new("zip", fa);
                    let a: Box<GA<L, N>> = Box::new(mk());
                    let b: Box<GA<R, N>> = Box::new(mk());
                    let out: Box<GA<U2, N>> = a.zip(b, |_l, _r| {
                        f.tick();
                        U2::fresh()
                    });
                    out
                });
            }
        }
    };
}

zip_forms! {
    z_oo: "own_own", |a, b| a, b;
    z_or: "own_ref", |a, b| a, &b;
    z_om: "own_mut", |a, b| a, &mut b;
    z_ro: "ref_own", |a, b| &a, b;
    z_rr: "ref_ref", |a, b| &a, &b;
    z_rm: "ref_mut", |a, b| &a, &mut b;
    z_mo: "mut_own", |a, b| &mut a, b;
    z_mr: "mut_ref", |a, b| &mut a, &b;
    z_mm: "mut_mut", |a, b| &mut a, &mut b;
}

fn c04_clone<E: Elem + Clone, N: ArrayLength>(cx: &mut Ctx) {
    let n = N::USIZE;
    for k in 0..=n {
        c04_case(cx, "clone.array", E::NAME, n, "", k, n, |fa| {
            let a: GA<E, N> = mk();
            if let Some(k) = fa {
                fault::arm_clone(k);
            }
            let b = a.clone();
            (a, b)
        });
        c04_case(cx, "clone.box", E::NAME, n, "", k, n, |fa| {
            let a: Box<GA<E, N>> = Box::new(mk());
            if let Some(k) = fa {
                fault::arm_clone(k);
            }
            let b = a.clone();
            (a, b)
        });
    }
    // clone_from: the k-th T::clone panics while an existing target is being overwritten
    for k in 0..=n {
        c04_case(cx, "clone_from.array", E::NAME, n, "", k, n, |fa| {
            let a: GA<E, N> = mk();
            let mut t: GA<E, N> = mk();
            if let Some(k) = fa {
                fault::arm_clone(k);
            }
            t.clone_from(&a);
            (a, t)
        });
        c04_case(cx, "clone_from.box", E::NAME, n, "", k, n, |fa| {
            let a: Box<GA<E, N>> = Box::new(mk());
            let mut t: Box<GA<E, N>> = Box::new(mk());
            if let Some(k) = fa {
                fault::arm_clone(k);
            }
            t.clone_from(&a);
            (a, t)
        });
    }
    for f in 0..=n {
        for b in f..=n {
            let len = b - f;
            // target positions: fresh, exhausted, and the mirror image of the source's
            for (df, db) in [(0, n), (n, n), (n - b, n - f), (f, b)] {
                for k in 0..=len {
                    c04_case(cx, "clone_from.iter", E::NAME, n, &format!(" src=({f},{b}) dst=({df},{db})"), k, len, |fa| {
                        let (it, _) = iter_at::<E, N>(f, b);
                        let (mut t, _) = iter_at::<E, N>(df, db);
                        if let Some(k) = fa {
                            fault::arm_clone(k);
                        }
                        t.clone_from(&it);
                        (it, t)
                    });
                }
            }
        }
    }
    // the by-value iterator, cloned at every position (f front steps, n-b back steps)
    for f in 0..=n {
        for b in f..=n {
            let len = b - f;
            for k in 0..=len {
                c04_case(cx, "clone.iter", E::NAME, n, &format!(" pos=({f},{b})"), k, len, |fa| {
                    let mut it = mk::<E, N>().into_iter();
                    for _ in 0..f {
                        drop(it.next());
                    }
                    for _ in 0..(n - b) {
                        drop(it.next_back());
                    }
                    if let Some(k) = fa {
                        fault::arm_clone(k);
                    }
                    let c = it.clone();
                    (it, c)
                });
            }
        }
    }
}

fn c04_collect<E: Elem, N: ArrayLength>(cx: &mut Ctx) {
    let n = N::USIZE;
    // sources delivering n-1, n, n+1 items; panic at every next() index the
    // operation can reach (at most n+1 calls).
    let counts: Vec<usize> = if n == 0 { vec![0, 1] } else { vec![n - 1, n, n + 1] };
    for c in counts {
        for hint in [Hint::Unknown, Hint::Loose] {
            // calls made when nothing fails: min(c, n) items + one more poll
            let calls = c.min(n) + 1;
            for k in 0..=calls {
                let ex = format!(" c={c} hint={}", hint.name());
                c04_case(cx, "try_from_iter", E::NAME, n, &ex, k, calls, |fa| {
                    let (src, _log) = ScriptIter::<E>::new(c, hint, true, fa);
                    GA::<E, N>::try_from_iter(src)
                });
                c04_case(cx, "try_boxed_from_iter", E::NAME, n, &ex, k, calls, |fa| {
                    let (src, _log) = ScriptIter::<E>::new(c, hint, true, fa);
                    GA::<E, N>::try_boxed_from_iter(src)
                });
                if c == n {
                    c04_case(cx, "from_iter", E::NAME, n, &ex, k, calls, |fa| {
                        let (src, _log) = ScriptIter::<E>::new(c, hint, true, fa);
                        src.collect::<GA<E, N>>()
                    });
                    c04_case(cx, "from_iter.box", E::NAME, n, &ex, k, calls, |fa| {
                        let (src, _log) = ScriptIter::<E>::new(c, hint, true, fa);
                        src.collect::<Box<GA<E, N>>>()
                    });
                }
            }
        }
    }
}

fn c04_iter_fold<E: Elem, N: ArrayLength>(cx: &mut Ctx) {
    let n = N::USIZE;
    for f in 0..=n {
        for b in f..=n {
            let len = b - f;
            for k in 0..=len {
                for rev in [false, true] {
                    let op = if rev { "iter.rfold" } else { "iter.fold" };
                    c04_case(cx, op, E::NAME, n, &format!(" pos=({f},{b})"), k, len, |fa| {
                        let mut it = mk::<E, N>().into_iter();
                        for _ in 0..f {
                            drop(it.next());
                        }
                        for _ in 0..(n - b) {
                            drop(it.next_back());
                        }
                        let mut fz = Fuse::new("fold", fa);
                        let g = |mut acc: Vec<E>, x: E| {
                            fz.tick();
                            acc.push(x);
                            acc
                        };
                        if rev {
                            it.rfold(Vec::new(), g)
                        } else {
                            it.fold(Vec::new(), g)
                        }
                    });
                }
            }
        }
    }
}

/// The `internals` builders and consumer, used according to their contract:
/// write, then bump the position.  A fault after p completed writes.
fn c04_internals<E: Elem, N: ArrayLength>(cx: &mut Ctx) {
    let n = N::USIZE;
    for k in 0..=n {
        c04_case(cx, "ArrayBuilder", E::NAME, n, "", k, n, |fa| unsafe {
            let mut f = Fuse::new("fill", fa);
            let mut b = ArrayBuilder::<E, N>::new();
            {
                let (it, pos) = b.iter_position();
                for dst in it {
                    f.tick();
                    dst.write(E::fresh());
                    *pos += 1;
                }
            }
            b.assume_init()
        });
        c04_case(cx, "IntrusiveArrayBuilder", E::NAME, n, "", k, n, |fa| unsafe {
            let mut f = Fuse::new("fill", fa);
            let mut arr = GA::<E, N>::uninit();
            let mut b = IntrusiveArrayBuilder::new(&mut arr);
            {
                let (it, pos) = b.iter_position();
                for dst in it {
                    f.tick();
                    dst.write(E::fresh());
                    *pos += 1;
                }
            }
            b.finish();
            IntrusiveArrayBuilder::array_assume_init(arr)
        });
        c04_case(cx, "ArrayBuilder.extend", E::NAME, n, "", k, n, |fa| unsafe {
            let mut b = ArrayBuilder::<E, N>::new();
            let (src, _log) = ScriptIter::<E>::new(n, Hint::Unknown, true, fa);
            b.extend(src);
            b.assume_init()
        });
        c04_case(cx, "ArrayConsumer", E::NAME, n, "", k, n, |fa| unsafe {
            let mut f = Fuse::new("consume", fa);
            let mut c = ArrayConsumer::new(mk::<E, N>());
            let mut got = Vec::new();
            {
                let (it, pos) = c.iter_position();
                for src in it {
                    let v = core::ptr::read(src);
                    *pos += 1;
                    got.push(v);
                    f.tick();
                }
            }
            got
        });
    }
    // partial fills / partial consumption dropped without a panic: exactly the
    // first p (resp. last n-p) elements are released
    for p in 0..=n {
        c04_case(cx, "ArrayBuilder.partial_drop", E::NAME, n, &format!(" p={p}"), 0, 0, |_| unsafe {
            let mut b = ArrayBuilder::<E, N>::new();
            {
                let (it, pos) = b.iter_position();
                for dst in it.take(p) {
                    dst.write(E::fresh());
                    *pos += 1;
                }
            }
            drop(b);
        });
        c04_case(cx, "IntrusiveArrayBuilder.partial_drop", E::NAME, n, &format!(" p={p}"), 0, 0, |_| unsafe {
            let mut arr = GA::<E, N>::uninit();
            let mut b = IntrusiveArrayBuilder::new(&mut arr);
            {
                let (it, pos) = b.iter_position();
                for dst in it.take(p) {
                    dst.write(E::fresh());
                    *pos += 1;
                }
            }
            drop(b);
        });
        c04_case(cx, "ArrayConsumer.partial_drop", E::NAME, n, &format!(" p={p}"), 0, 0, |_| unsafe {
            let mut c = ArrayConsumer::new(mk::<E, N>());
            let mut got = Vec::new();
            {
                let (it, pos) = c.iter_position();
                for src in it.take(p) {
                    got.push(core::ptr::read(src));
                    *pos += 1;
                }
            }
            drop(c);
            got
        });
    }
}

/// nested arrays: a panic in the middle of an inner array while the outer one is being built
fn c04_nested<E: Elem + Clone + Default, N: ArrayLength>(cx: &mut Ctx) {
    let n = N::USIZE;
    let total = 3 * n;
    for k in 0..=total {
        c04_case(cx, "clone.nested", E::NAME, n, " outer=3", k, total, |fa| {
            let a: GA<GA<E, N>, U<3>> = GA::<GA<E, N>, U<3>>::generate(|_| mk::<E, N>());
            if let Some(k) = fa {
                fault::arm_clone(k);
            }
            let b = a.clone();
            (a, b)
        });
        c04_case(cx, "default.nested", E::NAME, n, " outer=3", k, total, |fa| {
            if let Some(k) = fa {
                fault::arm_default(k);
            }
            GA::<GA<E, N>, U<3>>::default()
        });
        c04_case(cx, "generate.nested", E::NAME, n, " outer=3", k, total, |fa| {
            let mut f = Fuse::new("gen", fa);
            GA::<GA<E, N>, U<3>>::generate(|_| {
                GA::<E, N>::generate(|_| {
                    f.tick();
                    E::fresh()
                })
            })
        });
        c04_case(cx, "map.nested_flatten", E::NAME, n, " outer=3", k, total, |fa| {
            let mut f = Fuse::new("map", fa);
            let a: GA<GA<E, N>, U<3>> = GA::<GA<E, N>, U<3>>::generate(|_| mk::<E, N>());
            // map the inner arrays one by one (each inner map consumes its array)
            let out: GA<GA<E, N>, U<3>> = a.map(|inner| {
                inner.map(|x| {
                    f.tick();
                    x
                })
            });
            out
        });
    }
}

fn c04_all<E: Elem + Clone + Default, N: ArrayLength>(cx: &mut Ctx) {
    if cx.args.part_on("nested") && N::USIZE <= 4 {
        c04_nested::<E, N>(cx);
    }
    if cx.args.part_on("generate") {
        c04_generate::<E, N>(cx);
        c04_default::<E, N>(cx);
    }
    if cx.args.part_on("map") {
        c04_map::<E, E, N>(cx);
        c04_map::<E, u32, N>(cx);
        c04_map::<u32, E, N>(cx);
        c04_fold::<E, N>(cx);
    }
    if cx.args.part_on("zip") {
        c04_zip::<E, E, E, N>(cx);
        c04_zip::<E, u32, u32, N>(cx);
        c04_zip::<u32, E, u32, N>(cx);
        c04_zip::<u32, u32, E, N>(cx);
    }
    if cx.args.part_on("clone") {
        c04_clone::<E, N>(cx);
    }
    if cx.args.part_on("collect") {
        c04_collect::<E, N>(cx);
    }
    if cx.args.part_on("iterfold") {
        c04_iter_fold::<E, N>(cx);
    }
    if cx.args.part_on("internals") {
        c04_internals::<E, N>(cx);
    }
}

/// Large N, sampled fault indices (k in {0, 1, N/2, N-1, N}).
fn c04_large<E: Elem + Clone + Default, N: ArrayLength>(cx: &mut Ctx) {
    let n = N::USIZE;
    // fault indices on both sides of every block boundary a bulk path could use (8, 16, 32, 64)
    let mut ks: Vec<usize> = vec![0, 1, 2, 3, 5, 7, 8, 9, 15, 16, 17, 23, 31, 32, 33, 47, 63, 64, 65, n / 2, n.saturating_sub(3), n - 2, n - 1, n];
    ks.retain(|k| *k <= n);
    ks.sort();
    ks.dedup();
    for &k in &ks {
        c04_case(cx, "default", E::NAME, n, "", k, n, |fa| {
            if let Some(k) = fa {
                fault::arm_default(k);
            }
            GA::<E, N>::default()
        });
        c04_case(cx, "default_boxed", E::NAME, n, "", k, n, |fa| {
            if let Some(k) = fa {
                fault::arm_default(k);
            }
            GA::<E, N>::default_boxed()
        });
        c04_case(cx, "generate.ref", E::NAME, n, "", k, n, |fa| {
            let mut f = Fuse::new("gen", fa);
            <&GA<E, N> as GenericSequence<E>>::generate(|_| {
                f.tick();
                E::fresh()
            })
        });
        c04_case(cx, "map.ref", E::NAME, n, "", k, n, |fa| {
            let mut f = Fuse::new("map", fa);
            let a: GA<E, N> = mk();
            let out = (&a).map(|x| {
                let _ = x.key();
                f.tick();
                E::fresh()
            });
            (out, a)
        });
        c04_case(cx, "generate.owned", E::NAME, n, "", k, n, |fa| {
            let mut f = Fuse::new("gen", fa);
            GA::<E, N>::generate(|_| {
                f.tick();
                E::fresh()
            })
        });
        c04_case(cx, "generate.box", E::NAME, n, "", k, n, |fa| {
            let mut f = Fuse::new("gen", fa);
            <Box<GA<E, N>> as GenericSequence<E>>::generate(|_| {
                f.tick();
                E::fresh()
            })
        });
        c04_case(cx, "map.owned", E::NAME, n, "", k, n, |fa| {
            let mut f = Fuse::new("map", fa);
            mk::<E, N>().map(|x| {
                f.tick();
                drop(x);
                E::fresh()
            })
        });
        c04_case(cx, "zip.own_own", E::NAME, n, "", k, n, |fa| {
            let mut f = Fuse::new("zip", fa);
            mk::<E, N>().zip(mk::<E, N>(), |_l, _r| {
                f.tick();
                E::fresh()
            })
        });
        c04_case(cx, "zip.ref_own", E::NAME, n, "", k, n, |fa| {
            let mut f = Fuse::new("zip", fa);
            let a = mk::<E, N>();
            let out: GA<E, N> = (&a).zip(mk::<E, N>(), |_l, _r| {
                f.tick();
                E::fresh()
            });
            (out, a)
        });
        c04_case(cx, "fold.owned", E::NAME, n, "", k, n, |fa| {
            let mut f = Fuse::new("fold", fa);
            mk::<E, N>().fold(Vec::<E>::new(), |mut acc, x| {
                f.tick();
                acc.push(x);
                acc
            })
        });
        c04_case(cx, "clone.array", E::NAME, n, "", k, n, |fa| {
            let a: GA<E, N> = mk();
            if let Some(k) = fa {
                fault::arm_clone(k);
            }
            let b = a.clone();
            (a, b)
        });
        c04_case(cx, "clone.iter", E::NAME, n, " pos=(1,N-1)", k.min(n - 2), n - 2, |fa| {
            let mut it = mk::<E, N>().into_iter();
            drop(it.next());
            drop(it.next_back());
            if let Some(k) = fa {
                fault::arm_clone(k);
            }
            let c = it.clone();
            (it, c)
        });
        c04_case(cx, "try_from_iter", E::NAME, n, " c=N hint=Unknown", k, n + 1, |fa| {
            let (src, _log) = ScriptIter::<E>::new(n, Hint::Unknown, true, fa);
            GA::<E, N>::try_from_iter(src)
        });
        c04_case(cx, "try_boxed_from_iter", E::NAME, n, " c=N hint=Unknown", k, n + 1, |fa| {
            let (src, _log) = ScriptIter::<E>::new(n, Hint::Unknown, true, fa);
            GA::<E, N>::try_boxed_from_iter(src)
        });
        c04_case(cx, "iter.fold", E::NAME, n, " pos=(1,N-1)", k.min(n - 2), n - 2, |fa| {
            let mut it = mk::<E, N>().into_iter();
            drop(it.next());
            drop(it.next_back());
            let mut fz = Fuse::new("fold", fa);
            it.fold(Vec::new(), |mut acc: Vec<E>, x| {
                fz.tick();
                acc.push(x);
                acc
            })
        });
    }
}

// ------------------------------------------------------------------ C05

/// One C05 case: `setup` builds the objects and returns them together with the
/// ids of the elements (in creation order) that may be chosen as the bomb;
/// `run` performs the operation.  Oracle: no DoubleDrop / UseAfterDrop /
/// UnknownDrop / UnknownObserve.  Leaks are allowed by the statement.
fn c05_case<S, R>(
    cx: &mut Ctx,
    op: &str,
    flav: &str,
    n: usize,
    extra: &str,
    bomb: usize,
    setup: impl FnOnce() -> (S, Vec<u64>),
    run: impl FnOnce(S) -> R,
) {
    let Some(desc) = cx.st.select(|| format!("C05 {op} {flav} N={n}{extra} bomb={bomb}")) else { return };
    ledger::begin_case();
    fault::reset();
    let opform = format!("{op}|{flav}");
    cx.st.op(&format!("C05 {op} N={n}"));
    // build outside catch_unwind: nothing can fail here
    let (state, ids) = setup();
    if bomb < ids.len() {
        if ids[bomb] != 0 {
            fault::arm_bomb(ids[bomb]);
        } else {
            // zero-sized elements have no identity: the bomb is "the bomb-th drop from now on"
            fault::arm_zst_bomb(bomb);
        }
    }
    let r = catch(move || {
        let out = run(state);
        drop(out);
    });
    let fired = fault::bomb_fired();
    let live_at = fault::live_at_fault();
    match &r {
        Caught::Other(m) => {
            cx.st.violation("C05", &format!("{opform}|OtherPanic"), &desc, &format!("unexpected panic: {m} ({})", fault::last_panic()));
        }
        Caught::Injected(..) | Caught::Returned(()) => {}
    }
    // everything the harness held has been dropped by now (moved into the closure)
    let v: Vec<_> = ledger::end_case(true).into_iter().collect();
    if !v.is_empty() {
        let sig = format!("{}|{}", opform, ledger::kinds(&v));
        cx.st.violation("C05", &sig, &desc, &ledger::describe(&v));
    }
    cx.st.done(&desc, fired && live_at > 0);
    if fired {
        cx.st.count("c05.bombs_fired", 1);
    }
}

fn ids_of<E: Elem>(xs: &[E]) -> Vec<u64> {
    xs.iter().map(|e| e.raw()).collect()
}

fn iter_at<E: Elem, N: ArrayLength>(f: usize, b: usize) -> (GenericArrayIter<E, N>, Vec<u64>) {
    let n = N::USIZE;
    let mut it = mk::<E, N>().into_iter();
    for _ in 0..f {
        drop(it.next());
    }
    for _ in 0..(n - b) {
        drop(it.next_back());
    }
    let ids = ids_of(it.as_slice());
    (it, ids)
}

fn c05_iter<E: Elem, N: ArrayLength>(cx: &mut Ctx) {
    let n = N::USIZE;
    for f in 0..=n {
        for b in f..=n {
            let len = b - f;
            let pos = format!(" pos=({f},{b})");
            for bomb in 0..len {
                for arg in (0..=len + 1).chain([usize::MAX]) {
                    let ex = format!("{pos} arg={arg}");
                    c05_case(cx, "iter.nth", E::NAME, n, &ex, bomb, || iter_at::<E, N>(f, b), |mut it| {
                        let r = it.nth(arg);
                        (r, it)
                    });
                    c05_case(cx, "iter.nth_back", E::NAME, n, &ex, bomb, || iter_at::<E, N>(f, b), |mut it| {
                        let r = it.nth_back(arg);
                        (r, it)
                    });
                }
                c05_case(cx, "iter.count", E::NAME, n, &pos, bomb, || iter_at::<E, N>(f, b), |it| it.count());
                c05_case(cx, "iter.last", E::NAME, n, &pos, bomb, || iter_at::<E, N>(f, b), |it| it.last());
                c05_case(cx, "iter.drop", E::NAME, n, &pos, bomb, || iter_at::<E, N>(f, b), drop);
                c05_case(cx, "iter.for_each_drop", E::NAME, n, &pos, bomb, || iter_at::<E, N>(f, b), |it| it.for_each(drop));
                c05_case(cx, "iter.fold_drop", E::NAME, n, &pos, bomb, || iter_at::<E, N>(f, b), |it| {
                    it.fold(0usize, |a, x| {
                        drop(x);
                        a + 1
                    })
                });
                c05_case(cx, "iter.rfold_drop", E::NAME, n, &pos, bomb, || iter_at::<E, N>(f, b), |it| {
                    it.rfold(0usize, |a, x| {
                        drop(x);
                        a + 1
                    })
                });
                c05_case(cx, "iter.clone_then_drop", E::NAME, n, &pos, bomb, || iter_at::<E, N>(f, b), |it| {
                    // the bomb is an element of the original; the clone holds fresh ids
                    let c = it.as_slice().len();
                    drop(it);
                    c
                });
            }
        }
    }
}

fn c05_ops<E: Elem, N: ArrayLength>(cx: &mut Ctx) {
    let n = N::USIZE;
    let arr = || {
        let a = mk::<E, N>();
        let ids = ids_of(&a);
        (a, ids)
    };
    for bomb in 0..n {
        c05_case(cx, "array.drop", E::NAME, n, "", bomb, arr, drop);
        c05_case(cx, "box.drop", E::NAME, n, "", bomb, || { let (a, i) = arr(); (Box::new(a), i) }, drop);
        c05_case(cx, "map.owned_dropping", E::NAME, n, "", bomb, arr, |a| {
            a.map(|x| {
                drop(x);
                E::fresh()
            })
        });
        c05_case(cx, "map.box_dropping", E::NAME, n, "", bomb, || { let (a, i) = arr(); (Box::new(a), i) }, |a| {
            a.map(|x| {
                drop(x);
                E::fresh()
            })
        });
        c05_case(cx, "fold.owned_dropping", E::NAME, n, "", bomb, arr, |a| {
            a.fold(0usize, |acc, x| {
                drop(x);
                acc + 1
            })
        });
        c05_case(cx, "zip.own_own_dropping_left", E::NAME, n, "", bomb, arr, |a| {
            let b = mk::<E, N>();
            a.zip(b, |l, r| {
                drop(l);
                r
            })
        });
        c05_case(cx, "zip.own_own_dropping_right", E::NAME, n, "", bomb, arr, |b| {
            let a = mk::<E, N>();
            a.zip(b, |l, r| {
                drop(r);
                l
            })
        });
        c05_case(cx, "zip.ref_own_dropping_right", E::NAME, n, "", bomb, arr, |b| {
            let a = mk::<E, N>();
            let out: GA<u32, N> = (&a).zip(b, |_l, r| {
                drop(r);
                1u32
            });
            (out, a)
        });
        // result of map dropped: the bomb is in the *output*
        c05_case(cx, "into_iter.collect_vec_then_drop", E::NAME, n, "", bomb, arr, |a| {
            let v: Vec<E> = a.into_iter().collect();
            drop(v);
        });
        c05_case(cx, "remove.then_drop", E::NAME, n, "", bomb, arr, |a| {
            // only exists for n >= 1; go through the by-value iterator to stay length-generic
            let mut it = a.into_iter();
            let first = it.next();
            let rest: Vec<E> = it.collect();
            drop(first);
            drop(rest);
        });
        c05_case(cx, "into_vec.drop", E::NAME, n, "", bomb, arr, |a| drop(Vec::<E>::from(a)));
        c05_case(cx, "into_boxed_slice.drop", E::NAME, n, "", bomb, arr, |a| drop(Box::new(a).into_boxed_slice()));
        c05_case(cx, "box_into_iter.partial_drop", E::NAME, n, "", bomb, arr, |a| {
            let mut it = Box::new(a).into_iter();
            let x = it.next();
            drop(it);
            drop(x);
        });
        c05_case(cx, "iter.rev_take_drop", E::NAME, n, "", bomb, arr, |a| {
            let v: Vec<E> = a.into_iter().rev().take(n / 2 + 1).collect();
            drop(v);
        });
        c05_case(cx, "iter.skip_step_drop", E::NAME, n, "", bomb, arr, |a| {
            // skip/step_by are implemented through nth on the by-value iterator
            let v: Vec<E> = a.into_iter().skip(1).step_by(2).collect();
            drop(v);
        });
        c05_case(cx, "zip.mut_own_dropping_right", E::NAME, n, "", bomb, arr, |b| {
            let mut a = mk::<E, N>();
            let out: GA<u32, N> = (&mut a).zip(b, |_l, r| {
                drop(r);
                1u32
            });
            (out, a)
        });
        c05_case(cx, "zip.box_box_dropping_left", E::NAME, n, "", bomb, arr, |a| {
            let b = mk::<E, N>();
            Box::new(a).zip(Box::new(b), |l, r| {
                drop(l);
                r
            })
        });
        // the remaining receiver / argument pairings of zip: the owned (or boxed) side holds the bomb
        // and is dropped inside the closure while the other side is only borrowed -- these go
        // through the trait's default `inverted_zip` / `inverted_zip2` bodies, not the specialised ones
        c05_case(cx, "zip.own_ref_dropping_left", E::NAME, n, "", bomb, arr, |a| {
            let b = mk::<E, N>();
            let out: GA<u32, N> = a.zip(&b, |l, _r| {
                drop(l);
                1u32
            });
            (out, b)
        });
        c05_case(cx, "zip.own_mut_dropping_left", E::NAME, n, "", bomb, arr, |a| {
            let mut b = mk::<E, N>();
            let out: GA<u32, N> = a.zip(&mut b, |l, _r| {
                drop(l);
                1u32
            });
            (out, b)
        });
        c05_case(cx, "zip.own_ref_keeping_left", E::NAME, n, "", bomb, arr, |a| {
            // the closure hands the left element straight back: the bomb goes off when the OUTPUT is dropped
            let b = mk::<E, N>();
            let out: GA<E, N> = a.zip(&b, |l, _r| l);
            (out, b)
        });
        c05_case(cx, "zip.box_box_dropping_right", E::NAME, n, "", bomb, arr, |b| {
            let a = mk::<E, N>();
            Box::new(a).zip(Box::new(b), |l, r| {
                drop(r);
                l
            })
        });
        c05_case(cx, "zip.box_box_dropping_both", E::NAME, n, "", bomb, arr, |b| {
            let a = mk::<E, N>();
            Box::new(a).zip(Box::new(b), |l, r| {
                drop(l);
                drop(r);
                E::fresh()
            })
        });
        c05_case(cx, "zip.own_own_dropping_both", E::NAME, n, "", bomb, arr, |b| {
            let a = mk::<E, N>();
            a.zip(b, |l, r| {
                drop(r);
                drop(l);
                E::fresh()
            })
        });
        c05_case(cx, "map.box_dropping_other_layout", E::NAME, n, "", bomb, arr, |a| {
            Box::new(a).map(|x| {
                drop(x);
                [7u8; 3]
            })
        });
        c05_case(cx, "fold.box_dropping", E::NAME, n, "", bomb, arr, |a| {
            Box::new(a).fold(0usize, |acc, x| {
                drop(x);
                acc + 1
            })
        });
        c05_case(cx, "clone.then_drop_original", E::NAME, n, "", bomb, arr, |a| {
            // bomb is in the original; the clone survives
            drop(a);
        });
        c05_case(cx, "nested.drop", E::NAME, n, "", bomb, || {
            let a: GA<GA<E, N>, U<2>> = GA::<GA<E, N>, U<2>>::generate(|_| mk::<E, N>());
            let ids: Vec<u64> = a[1].iter().map(|e| e.raw()).collect();
            (a, ids)
        }, drop);
        // wrong-length collection: the builder tears down the items already taken
        c05_case(
            cx,
            "try_from_iter.short_teardown",
            E::NAME,
            n,
            "",
            bomb,
            || {
                let v: Vec<E> = (0..n).map(|_| E::fresh()).collect();
                let ids = ids_of(&v);
                (v, ids)
            },
            |v| {
                // n items into an (n+1)-array: Err, all n items torn down by the builder
                type Longer<N> = generic_array::typenum::Add1<N>;
                fn go<E: Elem, M: ArrayLength>(v: Vec<E>) -> bool {
                    // hint hidden so that the pre-check cannot reject up front
                    let it = v.into_iter().filter(|_| true);
                    GA::<E, M>::try_from_iter(it).is_ok()
                }
                let _ = core::marker::PhantomData::<Longer<generic_array::typenum::U0>>;
                go::<E, generic_array::typenum::U9>(v)
            },
        );
        c05_case(
            cx,
            "try_from_iter.surplus_teardown",
            E::NAME,
            n,
            "",
            bomb,
            || {
                // n+1 items into an n-array: Err after the surplus probe
                let v: Vec<E> = (0..n + 1).map(|_| E::fresh()).collect();
                let ids = ids_of(&v);
                (v, ids)
            },
            |v| GA::<E, N>::try_from_iter(v.into_iter().filter(|_| true)).is_ok(),
        );
        c05_case(
            cx,
            "try_from_vec.wrong_len",
            E::NAME,
            n,
            "",
            bomb,
            || {
                let v: Vec<E> = (0..n + 1).map(|_| E::fresh()).collect();
                let ids = ids_of(&v);
                (v, ids)
            },
            |v| GA::<E, N>::try_from(v).is_ok(),
        );
    }
    // builders / consumer dropped at every position p with the bomb inside the
    // range they are responsible for
    for p in 0..=n {
        for bomb in 0..n {
            let ex = format!(" p={p}");
            c05_case(
                cx,
                "ArrayConsumer.drop",
                E::NAME,
                n,
                &ex,
                bomb,
                arr,
                |a| unsafe {
                    let mut c = ArrayConsumer::new(a);
                    let mut got = Vec::new();
                    {
                        let (it, pos) = c.iter_position();
                        for src in it.take(p) {
                            got.push(core::ptr::read(src));
                            *pos += 1;
                        }
                    }
                    drop(c);
                    got
                },
            );
            if bomb < p {
                c05_case(
                    cx,
                    "ArrayBuilder.drop",
                    E::NAME,
                    n,
                    &ex,
                    bomb,
                    || {
                        let v: Vec<E> = (0..p).map(|_| E::fresh()).collect();
                        let ids = ids_of(&v);
                        (v, ids)
                    },
                    |v| unsafe {
                        let mut b = ArrayBuilder::<E, N>::new();
                        {
                            let (it, pos) = b.iter_position();
                            for (dst, x) in it.zip(v) {
                                dst.write(x);
                                *pos += 1;
                            }
                        }
                        drop(b);
                    },
                );
                c05_case(
                    cx,
                    "IntrusiveArrayBuilder.drop",
                    E::NAME,
                    n,
                    &ex,
                    bomb,
                    || {
                        let v: Vec<E> = (0..p).map(|_| E::fresh()).collect();
                        let ids = ids_of(&v);
                        (v, ids)
                    },
                    |v| unsafe {
                        let mut arr = GA::<E, N>::uninit();
                        let mut b = IntrusiveArrayBuilder::new(&mut arr);
                        {
                            let (it, pos) = b.iter_position();
                            for (dst, x) in it.zip(v) {
                                dst.write(x);
                                *pos += 1;
                            }
                        }
                        drop(b);
                    },
                );
            }
        }
    }
}


/// A C05 case in which the object **survives** the panic (the caller holds it behind
/// `&mut`) and is used afterwards: whatever it still claims to hold is observed and then
/// drained.  A stale element shows as UseAfterDrop at the observation, a second release as
/// DoubleDrop when it is drained or dropped.
fn c05_case_keep<S, R>(
    cx: &mut Ctx,
    op: &str,
    flav: &str,
    n: usize,
    extra: &str,
    bomb: usize,
    setup: impl FnOnce() -> (S, Vec<u64>),
    run: impl FnOnce(&mut S) -> R,
    after: impl FnOnce(S),
) {
    let Some(desc) = cx.st.select(|| format!("C05 {op} {flav} N={n}{extra} bomb={bomb}")) else { return };
    ledger::begin_case();
    fault::reset();
    let opform = format!("{op}|{flav}");
    cx.st.op(&format!("C05 {op} N={n}"));
    let (mut state, ids) = setup();
    if bomb < ids.len() {
        if ids[bomb] != 0 {
            fault::arm_bomb(ids[bomb]);
        } else {
            fault::arm_zst_bomb(bomb);
        }
    }
    let r = catch(|| {
        let out = run(&mut state);
        drop(out);
    });
    let fired = fault::bomb_fired();
    let live_at = fault::live_at_fault();
    if let Caught::Other(m) = &r {
        cx.st.violation("C05", &format!("{opform}|OtherPanic"), &desc, &format!("unexpected panic: {m} ({})", fault::last_panic()));
    }
    // the survivor is used and then dropped; the bomb may fire here instead (once)
    let r2 = catch(move || after(state));
    if let Caught::Other(m) = &r2 {
        cx.st.violation("C05", &format!("{opform}|OtherPanic"), &desc, &format!("unexpected panic while using the survivor: {m} ({})", fault::last_panic()));
    }
    let v: Vec<_> = ledger::end_case(true).into_iter().collect();
    if !v.is_empty() {
        let sig = format!("{}|{}", opform, ledger::kinds(&v));
        cx.st.violation("C05", &sig, &desc, &ledger::describe(&v));
    }
    cx.st.done(&desc, fired && live_at > 0);
    if fired {
        cx.st.count("c05.bombs_fired", 1);
        cx.st.count("c05.survivor_used_after_panic", 1);
    }
}

/// observe everything the iterator still claims to hold, then drain it from both ends
fn use_up<E: Elem, N: ArrayLength>(mut it: GenericArrayIter<E, N>) {
    let seen: Vec<u64> = it.as_slice().iter().map(|e| e.key()).collect();
    assert_eq!(seen.len(), it.len(), "len() and as_slice() disagree after a caught destructor panic");
    let mut turn = 0usize;
    loop {
        let x = if turn % 2 == 0 { it.next() } else { it.next_back() };
        match x {
            Some(e) => {
                let _ = e.key();
                // one drop per catch: a second bomb cannot exist, but keep unwinding local
                let _ = catch(move || drop(e));
            }
            None => break,
        }
        turn += 1;
    }
    assert!(it.next().is_none() && it.next_back().is_none());
}

fn c05_survivors<E: Elem + Clone, N: ArrayLength>(cx: &mut Ctx) {
    let n = N::USIZE;
    for f in 0..=n {
        for b in f..=n {
            let len = b - f;
            let pos = format!(" pos=({f},{b})");
            for bomb in 0..len {
                for arg in [0, 1, len / 2, len.saturating_sub(1), len, len + 1, usize::MAX] {
                    let ex = format!("{pos} arg={arg}");
                    c05_case_keep(cx, "iter.nth.then_use", E::NAME, n, &ex, bomb, || iter_at::<E, N>(f, b), |it| it.nth(arg), use_up);
                    c05_case_keep(cx, "iter.nth_back.then_use", E::NAME, n, &ex, bomb, || iter_at::<E, N>(f, b), |it| it.nth_back(arg), use_up);
                    c05_case_keep(cx, "iter.by_ref_skip.then_use", E::NAME, n, &ex, bomb, || iter_at::<E, N>(f, b), |it| it.by_ref().skip(arg).next(), use_up);
                    c05_case_keep(cx, "iter.by_ref_rev_skip.then_use", E::NAME, n, &ex, bomb, || iter_at::<E, N>(f, b), |it| it.by_ref().rev().skip(arg).next(), use_up);
                }
                c05_case_keep(cx, "iter.by_ref_count.then_use", E::NAME, n, &pos, bomb, || iter_at::<E, N>(f, b), |it| it.by_ref().count(), use_up);
                c05_case_keep(cx, "iter.by_ref_last.then_use", E::NAME, n, &pos, bomb, || iter_at::<E, N>(f, b), |it| it.by_ref().last(), use_up);
                c05_case_keep(cx, "iter.by_ref_for_each_drop.then_use", E::NAME, n, &pos, bomb, || iter_at::<E, N>(f, b), |it| it.by_ref().for_each(drop), use_up);
                c05_case_keep(cx, "iter.by_ref_rev_for_each_drop.then_use", E::NAME, n, &pos, bomb, || iter_at::<E, N>(f, b), |it| it.by_ref().rev().for_each(drop), use_up);
                c05_case_keep(cx, "iter.step_by.then_use", E::NAME, n, &pos, bomb, || iter_at::<E, N>(f, b), |it| it.by_ref().step_by(2).for_each(drop), use_up);
                // the target of clone_from / assignment holds the bomb: its old contents are
                // torn down by the operation, the target survives
                for (sf, sb) in [(0, n), (n, n), (f, b), (n - b, n - f)] {
                    let ex = format!("{pos} src=({sf},{sb})");
                    c05_case_keep(
                        cx,
                        "iter.clone_from.then_use",
                        E::NAME,
                        n,
                        &ex,
                        bomb,
                        || {
                            let (t, ids) = iter_at::<E, N>(f, b);
                            let (s, _) = iter_at::<E, N>(sf, sb);
                            ((t, s), ids)
                        },
                        |ts| ts.0.clone_from(&ts.1),
                        |(t, s)| {
                            use_up(t);
                            use_up(s);
                        },
                    );
                    c05_case_keep(
                        cx,
                        "iter.assign_clone.then_use",
                        E::NAME,
                        n,
                        &ex,
                        bomb,
                        || {
                            let (t, ids) = iter_at::<E, N>(f, b);
                            let (s, _) = iter_at::<E, N>(sf, sb);
                            ((t, s), ids)
                        },
                        |ts| ts.0 = ts.1.clone(),
                        |(t, s)| {
                            use_up(t);
                            use_up(s);
                        },
                    );
                }
            }
        }
    }
    // arrays as clone_from targets (stack and boxed) and as assignment targets
    for bomb in 0..n {
        let pair = || {
            let t = mk::<E, N>();
            let ids = ids_of(&t);
            ((t, mk::<E, N>()), ids)
        };
        let look = |(t, s): (GA<E, N>, GA<E, N>)| {
            for e in t.iter().chain(s.iter()) {
                let _ = e.key();
            }
            let _ = catch(move || drop(t));
            drop(s);
        };
        c05_case_keep(cx, "array.clone_from.then_use", E::NAME, n, "", bomb, pair, |ts| ts.0.clone_from(&ts.1), look);
        c05_case_keep(cx, "array.assign_clone.then_use", E::NAME, n, "", bomb, pair, |ts| ts.0 = ts.1.clone(), look);
        c05_case_keep(
            cx,
            "box.clone_from.then_use",
            E::NAME,
            n,
            "",
            bomb,
            || {
                let ((t, s), ids) = pair();
                ((Box::new(t), Box::new(s)), ids)
            },
            |ts| ts.0.clone_from(&ts.1),
            |(t, s)| look((*t, *s)),
        );
        // elements replaced one by one through the mutable views
        c05_case_keep(
            cx,
            "array.refresh_through_views.then_use",
            E::NAME,
            n,
            "",
            bomb,
            pair,
            |ts| {
                for (i, e) in ts.0.iter_mut().enumerate() {
                    if i % 2 == 0 {
                        e.refresh();
                    }
                }
                for (i, e) in ts.0.as_mut_slice().iter_mut().enumerate() {
                    if i % 2 == 1 {
                        e.refresh();
                    }
                }
            },
            look,
        );
    }
}

fn c05_all<E: Elem + Clone, N: ArrayLength>(cx: &mut Ctx) {
    if cx.args.part_on("iter") {
        c05_iter::<E, N>(cx);
    }
    if cx.args.part_on("ops") {
        c05_ops::<E, N>(cx);
    }
    if cx.args.part_on("keep") {
        c05_survivors::<E, N>(cx);
    }
}

/// larger N, sampled positions / bombs
fn c05_large<E: Elem, N: ArrayLength>(cx: &mut Ctx, seed: u64) {
    let n = N::USIZE;
    let mut rng = vkit::Rng::new(seed ^ n as u64);
    for _ in 0..40 {
        let f = rng.below(n / 2);
        let b = n - rng.below(n / 2);
        let len = b - f;
        let bomb = rng.below(len);
        let arg = *rng.pick(&[0usize, 1, len / 2, len - 1, len, len + 1, usize::MAX]);
        let ex = format!(" pos=({f},{b}) arg={arg}");
        c05_case(cx, "iter.nth", E::NAME, n, &ex, bomb, || iter_at::<E, N>(f, b), |mut it| {
            let r = it.nth(arg);
            (r, it)
        });
        c05_case(cx, "iter.nth_back", E::NAME, n, &ex, bomb, || iter_at::<E, N>(f, b), |mut it| {
            let r = it.nth_back(arg);
            (r, it)
        });
        c05_case(cx, "iter.drop", E::NAME, n, &ex, bomb, || iter_at::<E, N>(f, b), drop);
        c05_case(cx, "iter.last", E::NAME, n, &ex, bomb, || iter_at::<E, N>(f, b), |it| it.last());
    }
}

// ------------------------------------------------------------------ main

macro_rules! for_lens {
    ($cx:expr, [$($v:literal),*], $N:ident => $body:expr) => {
        $( if $v <= $cx.args.maxn { type $N = U<$v>; $body; } )*
    };
}

fn main() {
    let args = Args::parse();
    let mut st = Stats::new("faults", &args);
    let prop = args.kv.get("prop").cloned().unwrap_or_else(|| "C04".into());
    {
        let mut cx = Ctx { st: &mut st, args: &args };
        if prop == "C04" {
            if args.flavour_on("Tok") {
                for_lens!(cx, [0, 1, 2, 3, 4, 5, 6, 8], N => c04_all::<Tok, N>(&mut cx));
                // a different element type of the same size and alignment on the output side
                // (storage reuse across a same-layout type change)
                if cx.args.part_on("map") {
                    for_lens!(cx, [0, 1, 2, 3, 5, 8], N => { c04_map::<Tok, TokX, N>(&mut cx); c04_map::<TokX, Tok, N>(&mut cx) });
                }
                if cx.args.part_on("zip") {
                    for_lens!(cx, [1, 2, 3, 5], N => { c04_zip::<Tok, Tok, TokX, N>(&mut cx); c04_zip::<TokX, u32, Tok, N>(&mut cx) });
                }
                // sampled fault indices on long arrays (block boundaries of bulk paths), natively cheap
                if cx.args.part_on("large") {
                    for_lens!(cx, [16, 17, 33, 40, 100], N => c04_large::<Tok, N>(&mut cx));
                }
            }
            if args.flavour_on("ZTok") {
                for_lens!(cx, [0, 1, 2, 3, 5, 8], N => c04_all::<ZTok, N>(&mut cx));
            }
            if args.flavour_on("Tok24") {
                for_lens!(cx, [0, 1, 2, 3, 7], N => c04_all::<Tok24, N>(&mut cx));
            }
            if args.flavour_on("HeapTok") {
                for_lens!(cx, [0, 1, 2, 3, 4, 5], N => c04_all::<HeapTok, N>(&mut cx));
            }
            if args.thorough() {
                if args.flavour_on("Tok") {
                    for_lens!(cx, [64, 65, 129], N => c04_large::<Tok, N>(&mut cx));
                }
                if args.flavour_on("HeapTok") {
                    for_lens!(cx, [16, 17, 33], N => c04_large::<HeapTok, N>(&mut cx));
                }
            }
        } else if prop == "C05" {
            if args.flavour_on("Tok") {
                for_lens!(cx, [0, 1, 2, 3, 4, 5, 6], N => c05_all::<Tok, N>(&mut cx));
            }
            if args.flavour_on("Tok24") {
                for_lens!(cx, [1, 2, 3, 5], N => c05_all::<Tok24, N>(&mut cx));
            }
            if args.flavour_on("ZTok") {
                for_lens!(cx, [1, 2, 3, 4, 6], N => c05_all::<ZTok, N>(&mut cx));
            }
            if args.flavour_on("HeapTok") {
                for_lens!(cx, [0, 1, 2, 3, 4], N => c05_all::<HeapTok, N>(&mut cx));
            }
            if args.thorough() {
                let seed = args.seed;
                if args.flavour_on("Tok") {
                    for_lens!(cx, [7, 8], N => c05_all::<Tok, N>(&mut cx));
                    for_lens!(cx, [8, 16, 17, 33, 100], N => c05_large::<Tok, N>(&mut cx, seed));
                }
                if args.flavour_on("HeapTok") {
                    for_lens!(cx, [8, 17], N => c05_large::<HeapTok, N>(&mut cx, seed));
                }
            }
        } else {
            panic!("faults: unknown prop {prop}");
        }
    }
    st.finish();
}
