//! zc — C19: zeroize() reaches every one of the N elements exactly once and leaves
//! each equal to its zeroized value; the constant default is N copies of the
//! element's constant default (and equals Default::default() where both exist),
//! at run time and in const items, for every storage shape.

use const_default::ConstDefault;
use core::num::NonZeroU32;
use generic_array::sequence::GenericSequence;
use generic_array::GenericArray;
use std::cell::RefCell;
use std::collections::BTreeMap;
use vkit::typenum::{U, U2, U3};
use vkit::{Args, Rng, Stats};
use zeroize::Zeroize;

type GA<E, N> = GenericArray<E, N>;

thread_local! {
    static VISITS: RefCell<BTreeMap<usize, u32>> = const { RefCell::new(BTreeMap::new()) };
}

/// An element whose zeroized value and constant default are distinguishable from
/// each other and from all-zero bytes, and whose `zeroize` counts visits per address.
#[derive(Clone, Copy, PartialEq, Debug)]
pub struct Mark {
    a: u32,
    b: u16,
    flag: bool,
}
impl Mark {
    pub const ZEROED: Mark = Mark { a: u32::MAX, b: 0x5A5A, flag: false };
}
impl Zeroize for Mark {
    fn zeroize(&mut self) {
        let at = self as *const Mark as usize;
        VISITS.with(|v| *v.borrow_mut().entry(at).or_insert(0) += 1);
        *self = Mark::ZEROED;
    }
}
impl ConstDefault for Mark {
    const DEFAULT: Mark = Mark { a: 0xDEFA_0017, b: 7, flag: true };
}
impl Default for Mark {
    fn default() -> Mark {
        Mark::DEFAULT
    }
}

/// Defaults that begin with zero bytes and differ from zero only later: a probe that looks at a
/// prefix of the default value ("is it all zero? then memset") gets these wrong.
#[repr(C)]
#[derive(Clone, Copy, PartialEq, Debug)]
pub struct Rec {
    id: u64,
    version: u32,
    flags: u16,
}
impl ConstDefault for Rec {
    const DEFAULT: Rec = Rec { id: 0, version: 1, flags: 0x8000 };
}
impl Default for Rec {
    fn default() -> Rec {
        Rec::DEFAULT
    }
}
#[repr(C)]
#[derive(Clone, Copy, PartialEq, Debug)]
pub struct Tail {
    pad: [u64; 4],
    last: u8,
}
impl ConstDefault for Tail {
    const DEFAULT: Tail = Tail { pad: [0; 4], last: 9 };
}
impl Default for Tail {
    fn default() -> Tail {
        Tail::DEFAULT
    }
}

thread_local! {
    /// out-of-band "key table": Keyed elements wipe the slot they name
    static TABLE: RefCell<Vec<u8>> = const { RefCell::new(Vec::new()) };
    static ZST_CALLS: core::cell::Cell<u64> = const { core::cell::Cell::new(0) };
}

/// Handle into the key table: its Zeroize must read its own prior contents to know what to wipe.
#[derive(PartialEq, Debug)]
pub struct Keyed {
    slot: usize,
}
impl Zeroize for Keyed {
    fn zeroize(&mut self) {
        TABLE.with(|t| {
            if let Some(x) = t.borrow_mut().get_mut(self.slot) {
                *x = 0;
            }
        });
        self.slot = usize::MAX;
    }
}

/// Zero-sized token for an out-of-band register: zeroize has a side effect only.
#[derive(PartialEq, Debug)]
pub struct ZReg;
impl Zeroize for ZReg {
    fn zeroize(&mut self) {
        ZST_CALLS.with(|c| c.set(c.get() + 1));
    }
}

trait Z: Zeroize + Sized + PartialEq + core::fmt::Debug + 'static {
    const NAME: &'static str;
    fn random(r: &mut Rng) -> Self;
    fn zeroed() -> Self;
    const COUNTED: bool = false;
    /// a value whose every byte is zero, where the type has one (prior content that already
    /// *looks* wiped although the element's own zeroized value is something else)
    fn all_zero_bytes() -> Option<Self> {
        None
    }
}
impl Z for u8 {
    const NAME: &'static str = "u8";
    fn random(r: &mut Rng) -> u8 {
        r.byte() | 1
    }
    fn zeroed() -> u8 {
        0
    }
}
impl Z for u64 {
    const NAME: &'static str = "u64";
    fn all_zero_bytes() -> Option<u64> {
        Some(0)
    }
    fn random(r: &mut Rng) -> u64 {
        r.next_u64() | 1
    }
    fn zeroed() -> u64 {
        0
    }
}
/// byte arrays of every small width: element sizes that are not a power of two (3, 5, 6, 7, 12, 17)
/// divide no lane width evenly
impl<const K: usize> Z for [u8; K] {
    const NAME: &'static str = match K {
        3 => "[u8;3]",
        5 => "[u8;5]",
        6 => "[u8;6]",
        7 => "[u8;7]",
        12 => "[u8;12]",
        17 => "[u8;17]",
        _ => "[u8;K]",
    };
    fn random(r: &mut Rng) -> [u8; K] {
        let mut a = [0u8; K];
        for (i, x) in a.iter_mut().enumerate() {
            *x = r.byte() | (1 << (i % 8));
        }
        a
    }
    fn zeroed() -> [u8; K] {
        [0; K]
    }
}
impl Z for Mark {
    const NAME: &'static str = "Mark";
    fn all_zero_bytes() -> Option<Mark> {
        // built in zeroed storage so that the padding byte is zero as well
        let mut m = core::mem::MaybeUninit::<Mark>::zeroed();
        unsafe {
            m.as_mut_ptr().write_bytes(0, 1);
            Some(m.assume_init())
        }
    }
    fn random(r: &mut Rng) -> Mark {
        Mark { a: r.next_u64() as u32 | 1, b: r.next_u64() as u16 | 1, flag: true }
    }
    fn zeroed() -> Mark {
        Mark::ZEROED
    }
    const COUNTED: bool = true;
}
impl Z for NonZeroU32 {
    const NAME: &'static str = "NonZeroU32";
    fn random(r: &mut Rng) -> NonZeroU32 {
        NonZeroU32::new(r.next_u64() as u32 | 2).unwrap()
    }
    fn zeroed() -> NonZeroU32 {
        NonZeroU32::new(1).unwrap() // zeroize's documented value for NonZero types
    }
}
impl Z for GA<u8, U3> {
    const NAME: &'static str = "GA<u8,3>";
    fn random(r: &mut Rng) -> Self {
        GA::<u8, U3>::generate(|_| r.byte() | 1)
    }
    fn zeroed() -> Self {
        GA::from_array([0; 3])
    }
}
impl Z for GA<Mark, U2> {
    const NAME: &'static str = "GA<Mark,2>";
    fn all_zero_bytes() -> Option<Self> {
        Some(GA::<Mark, U2>::generate(|_| Mark::all_zero_bytes().unwrap()))
    }
    fn random(r: &mut Rng) -> Self {
        GA::<Mark, U2>::generate(|_| Mark::random(r))
    }
    fn zeroed() -> Self {
        GA::from_array([Mark::ZEROED; 2])
    }
    const COUNTED: bool = true;
}

trait ZcLen {
    fn run(st: &mut Stats, args: &Args);
}
struct L<const K: usize>;

fn zero_case<E: Z, N: generic_array::ArrayLength>(st: &mut Stats, seed: u64) {
    zero_case_with::<E, N>(st, seed, false);
    if E::all_zero_bytes().is_some() {
        zero_case_with::<E, N>(st, seed, true);
    }
}

fn zero_case_with<E: Z, N: generic_array::ArrayLength>(st: &mut Stats, seed: u64, prior_all_zero: bool) {
    let n = N::USIZE;
    let tag = if prior_all_zero { " prior=all-zero-bytes" } else { "" };
    st.check_case("C19", "zeroize", E::NAME, || format!("C19 zeroize {} N={n}{tag}", E::NAME), n > 0, || {
        let mut rng = Rng::for_case(seed ^ 0x19, n as u64);
        let mut a: GA<E, N> = GA::<E, N>::generate(|_| if prior_all_zero { E::all_zero_bytes().unwrap() } else { E::random(&mut rng) });
        let base = a.as_ptr() as usize;
        VISITS.with(|v| v.borrow_mut().clear());
        a.zeroize();
        for (i, e) in a.iter().enumerate() {
            if *e != E::zeroed() {
                return Err(format!("NotZeroized: element {i} is {e:?} after zeroize(), expected {:?}", E::zeroed()));
            }
        }
        if E::COUNTED {
            let visits = VISITS.with(|v| v.borrow().clone());
            let per = core::mem::size_of::<E>() / core::mem::size_of::<Mark>();
            let total = n * per;
            let sz = core::mem::size_of::<Mark>();
            for k in 0..total {
                match visits.get(&(base + k * sz)) {
                    Some(1) => {}
                    Some(c) => return Err(format!("VisitCount: slot {k} was zeroized {c} times")),
                    None => return Err(format!("VisitCount: slot {k} was never visited by Zeroize")),
                }
            }
            if visits.len() != total {
                return Err(format!("VisitCount: {} addresses visited, the array has {total} slots", visits.len()));
            }
        }
        Ok(())
    });
}

fn stateful_cases<N: generic_array::ArrayLength>(st: &mut Stats) {
    let n = N::USIZE;
    st.check_case("C19", "zeroize", "Keyed(reads prior state)", || format!("C19 zeroize Keyed N={n}"), n > 0, || {
        // slot 0 is a decoy that must stay untouched; element i names slot i + 1
        TABLE.with(|t| *t.borrow_mut() = vec![0xEE; n + 1]);
        let mut a: GA<Keyed, N> = GA::<Keyed, N>::generate(|i| Keyed { slot: i + 1 });
        a.zeroize();
        let table = TABLE.with(|t| t.borrow().clone());
        if table[0] != 0xEE {
            return Err("NotZeroized: a Zeroize impl was run on wiped contents (the decoy slot 0 was cleared)".into());
        }
        for i in 0..n {
            if table[i + 1] != 0 {
                return Err(format!("NotZeroized: key slot {} still holds key material: element {i}'s Zeroize did not see its own contents", i + 1));
            }
            if a[i].slot != usize::MAX {
                return Err(format!("NotZeroized: element {i} is not in its zeroized state"));
            }
        }
        Ok(())
    });
    st.check_case("C19", "zeroize", "ZReg(zero-sized)", || format!("C19 zeroize ZReg N={n}"), n > 0, || {
        let mut a: GA<ZReg, N> = GA::<ZReg, N>::generate(|_| ZReg);
        ZST_CALLS.with(|c| c.set(0));
        a.zeroize();
        let calls = ZST_CALLS.with(|c| c.get());
        if calls != n as u64 {
            return Err(format!("VisitCount: Zeroize ran {calls} times on {n} zero-sized elements"));
        }
        let mut nested: GA<GA<ZReg, U3>, N> = GA::<GA<ZReg, U3>, N>::generate(|_| GA::<ZReg, U3>::generate(|_| ZReg));
        ZST_CALLS.with(|c| c.set(0));
        nested.zeroize();
        let calls = ZST_CALLS.with(|c| c.get());
        if calls != 3 * n as u64 {
            return Err(format!("VisitCount: Zeroize ran {calls} times on {} nested zero-sized elements", 3 * n));
        }
        Ok(())
    });
}

fn default_case<E, N>(st: &mut Stats, name: &'static str, konst: &GA<E, N>)
where
    E: ConstDefault + Default + PartialEq + core::fmt::Debug + 'static,
    N: generic_array::ArrayLength,
    GA<E, N>: ConstDefault,
{
    let n = N::USIZE;
    st.check_case("C19", "const_default", name, || format!("C19 const_default {name} N={n}"), n > 0, || {
        let views: [(&str, GA<E, N>); 2] = [("const_default()", GA::<E, N>::const_default()), ("ConstDefault::DEFAULT", <GA<E, N> as ConstDefault>::DEFAULT)];
        for (what, v) in views.iter() {
            if v.len() != n {
                return Err(format!("DefaultLength: {what} has {} elements", v.len()));
            }
            for (i, e) in v.iter().enumerate() {
                if *e != E::DEFAULT {
                    return Err(format!("DefaultMismatch: slot {i} of {what} is {e:?}, T::DEFAULT is {:?}", E::DEFAULT));
                }
            }
        }
        // the value computed by the compiler's const evaluator for a const item
        for (i, e) in konst.iter().enumerate() {
            if *e != E::DEFAULT {
                return Err(format!("DefaultMismatch: slot {i} of a const item initialised with const_default() is {e:?}"));
            }
        }
        let d = GA::<E, N>::default();
        if d.as_slice() != views[0].1.as_slice() {
            return Err("DefaultMismatch: const_default() differs from Default::default()".into());
        }
        Ok(())
    });
}

macro_rules! impl_zclen {
    ($($n:literal),*) => { $(
        impl ZcLen for L<$n> {
            fn run(st: &mut Stats, args: &Args) {
                type N = U<$n>;
                if args.part_on("zeroize") {
                    zero_case::<u8, N>(st, args.seed);
                    zero_case::<u64, N>(st, args.seed);
                    zero_case::<[u8; 3], N>(st, args.seed);
                    zero_case::<[u8; 5], N>(st, args.seed);
                    zero_case::<[u8; 6], N>(st, args.seed);
                    zero_case::<[u8; 7], N>(st, args.seed);
                    zero_case::<[u8; 12], N>(st, args.seed);
                    zero_case::<[u8; 17], N>(st, args.seed);
                    zero_case::<Mark, N>(st, args.seed);
                    zero_case::<NonZeroU32, N>(st, args.seed);
                    zero_case::<GA<u8, U3>, N>(st, args.seed);
                    zero_case::<GA<Mark, U2>, N>(st, args.seed);
                    stateful_cases::<N>(st);
                }
                if args.part_on("default") {
                    const C_MARK: GA<Mark, N> = GenericArray::const_default();
                    const C_U8: GA<u8, N> = GenericArray::const_default();
                    const C_U64: GA<u64, N> = <GA<u64, N> as ConstDefault>::DEFAULT;
                    default_case::<Mark, N>(st, "Mark", &C_MARK);
                    default_case::<u8, N>(st, "u8", &C_U8);
                    default_case::<u64, N>(st, "u64", &C_U64);
                    const C_REC: GA<Rec, N> = GenericArray::const_default();
                    const C_TAIL: GA<Tail, N> = <GA<Tail, N> as ConstDefault>::DEFAULT;
                    default_case::<Rec, N>(st, "Rec(zero-leading default)", &C_REC);
                    default_case::<Tail, N>(st, "Tail(zero-leading default)", &C_TAIL);
                    // nested: the constant default of an array of arrays
                    const C_NEST: GA<GA<Mark, U2>, N> = GenericArray::const_default();
                    let n: usize = $n;
                    st.check_case("C19", "const_default", "GA<Mark,2>", || format!("C19 const_default GA<Mark,2> N={n}"), n > 0, || {
                        let v = GA::<GA<Mark, U2>, N>::const_default();
                        for (i, inner) in v.iter().chain(C_NEST.iter()).enumerate() {
                            for e in inner.iter() {
                                if *e != Mark::DEFAULT {
                                    return Err(format!("DefaultMismatch: nested slot {i} is {e:?}"));
                                }
                            }
                        }
                        if v.len() != n || C_NEST.len() != n {
                            return Err("DefaultLength: nested".into());
                        }
                        Ok(())
                    });
                }
            }
        }
    )* };
}

impl_zclen!(
    0, 1, 2, 3, 4, 5, 6, 7, 8, 9, 10, 11, 12, 13, 14, 15, 16, 17, 18, 19, 20, 21, 22, 23, 24, 25, 26, 27, 28, 29, 30, 31, 32, 33, 34, 35, 36, 37, 38, 39, 40,
    41, 42, 43, 44, 45, 46, 47, 48, 49, 50, 51, 52, 53, 54, 55, 56, 57, 58, 59, 60, 61, 62, 63, 64, 100, 127, 128, 255, 256, 1000, 1023, 1024
);

macro_rules! run_lens {
    ($st:expr, $args:expr, [$($n:literal),*]) => { $( if $n <= $args.maxn { <L<$n> as ZcLen>::run($st, &$args); } )* };
}

fn main() {
    let args = Args::parse();
    let mut st = Stats::new("zc", &args);
    run_lens!(
        &mut st,
        args,
        [
            0, 1, 2, 3, 4, 5, 6, 7, 8, 9, 10, 11, 12, 13, 14, 15, 16, 17, 18, 19, 20, 21, 22, 23, 24, 25, 26, 27, 28, 29, 30, 31, 32, 33, 34, 35, 36, 37, 38, 39,
            40, 41, 42, 43, 44, 45, 46, 47, 48, 49, 50, 51, 52, 53, 54, 55, 56, 57, 58, 59, 60, 61, 62, 63, 64, 100, 127, 128, 255, 256, 1000, 1023, 1024
        ]
    );
    st.finish();
}
