//! traitprobe — C12 part (a): run-time reflection of trait facts.
//!
//! `impls!(Type: Bound)` uses the inherent-associated-const-beats-trait-const idiom:
//! the real trait solver, for the real crate built from the working tree, decides
//! whether a concrete type satisfies a bound, and the compiled binary reports it.
//! Only facts the property statement asserts are in the matrix:
//!  * GenericArray / GenericArrayIter are Send / Sync / Copy / Clone only when the
//!    element type is (and are when it is, where the crate offers the impl at all);
//!  * length relations carried by traits: Shorten/Remove absent on U0, Split<K> absent
//!    for K > N, Lengthen/Concat/Remove/Flatten/Unflatten outputs have the arithmetic
//!    length, Const<K> maps to length K only, PartialEq/PartialOrd only between equal
//!    lengths, native-array and tuple conversions only for the matching length.

use generic_array::sequence::{Concat, Flatten, Lengthen, Remove, Shorten, Split, Unflatten};
use generic_array::typenum::{Const, U};
use generic_array::{GenericArray, GenericArrayIter, IntoArrayLength};
use std::cell::Cell;
use std::rc::Rc;
use std::sync::{Arc, MutexGuard};
use vkit::{Args, Stats};

type GA<E, N> = GenericArray<E, N>;
type It<E, N> = GenericArrayIter<E, N>;

macro_rules! impls {
    ($ty:ty: $($bound:tt)+) => {{
        struct Wrap<T: ?Sized>(core::marker::PhantomData<T>);
        #[allow(dead_code)]
        trait DoesNot { const IMPLS: bool = false; }
        impl<T: ?Sized> DoesNot for Wrap<T> {}
        #[allow(dead_code)]
        impl<T: ?Sized + $($bound)+> Wrap<T> { const IMPLS: bool = true; }
        <Wrap<$ty>>::IMPLS
    }};
}

struct NoClone;

struct Fact {
    what: String,
    observed: bool,
    expected: bool,
}

fn fact(v: &mut Vec<Fact>, what: String, observed: bool, expected: bool) {
    v.push(Fact { what, observed, expected });
}

macro_rules! auto_facts {
    ($v:expr, $n:literal, $($E:ty),*) => { $(
        {
            type N = U<$n>;
            let e = stringify!($E);
            // the array: exactly when the element type is
            fact($v, format!("GenericArray<{e},U{}>: Send <=> {e}: Send", $n), impls!(GA<$E, N>: Send), impls!($E: Send));
            fact($v, format!("GenericArray<{e},U{}>: Sync <=> {e}: Sync", $n), impls!(GA<$E, N>: Sync), impls!($E: Sync));
            fact($v, format!("GenericArray<{e},U{}>: Clone <=> {e}: Clone", $n), impls!(GA<$E, N>: Clone), impls!($E: Clone));
            fact($v, format!("GenericArray<{e},U{}>: Copy <=> {e}: Copy", $n), impls!(GA<$E, N>: Copy), impls!($E: Copy));
            // the by-value iterator: Send / Sync / Clone exactly when the element is; never Copy
            fact($v, format!("GenericArrayIter<{e},U{}>: Send <=> {e}: Send", $n), impls!(It<$E, N>: Send), impls!($E: Send));
            fact($v, format!("GenericArrayIter<{e},U{}>: Sync <=> {e}: Sync", $n), impls!(It<$E, N>: Sync), impls!($E: Sync));
            fact($v, format!("GenericArrayIter<{e},U{}>: Clone <=> {e}: Clone", $n), impls!(It<$E, N>: Clone), impls!($E: Clone));
            fact($v, format!("GenericArrayIter<{e},U{}>: Copy only if {e}: Copy", $n), impls!(It<$E, N>: Copy) && !impls!($E: Copy), false);
            // boxed
            fact($v, format!("Box<GenericArray<{e},U{}>>: Send <=> {e}: Send", $n), impls!(Box<GA<$E, N>>: Send), impls!($E: Send));
            fact($v, format!("&GenericArray<{e},U{}>: Send <=> {e}: Sync", $n), impls!(&'static GA<$E, N>: Send), impls!($E: Sync));
        }
    )* };
}

macro_rules! auto_lens {
    ($v:expr, [$($n:literal),*]) => { $(
        auto_facts!($v, $n, u8, String, Rc<u8>, Arc<u8>, Cell<u8>, *const u8, MutexGuard<'static, u8>, NoClone, &'static str, fn() -> u8, Option<Rc<u8>>);
    )* };
}

macro_rules! len_facts {
    ($v:expr, $n:literal, $np:literal, $nm:literal) => {{
        // N = $n, N+1 = $np, N-1 = $nm (only used when $n > 0)
        type N = U<$n>;
        type NP = U<$np>;
        fact($v, format!("U{}: Lengthen with Longer = U{}", $n, $np), impls!(GA<u8, N>: Lengthen<u8, Longer = GA<u8, NP>>), true);
        fact($v, format!("U{}: Lengthen with Longer = U{} (same length) must not hold", $n, $n), impls!(GA<u8, N>: Lengthen<u8, Longer = GA<u8, N>>), false);
        fact($v, format!("U{}: Shorten exists iff N > 0", $n), impls!(GA<u8, N>: Shorten<u8>), $n > 0);
        fact($v, format!("U{}: Remove exists iff N > 0", $n), impls!(GA<u8, N>: Remove<u8, N>), $n > 0);
        fact($v, format!("U{}: Shorten with Shorter = U{} (same length) must not hold", $n, $n), impls!(GA<u8, N>: Shorten<u8, Shorter = GA<u8, N>>), false);
        fact($v, format!("U{}: Split<U{}> (one past the end) must not exist", $n, $np), impls!(GA<u8, N>: Split<u8, NP>), false);
        fact($v, format!("&U{}: Split<U{}> must not exist", $n, $np), impls!(&'static GA<u8, N>: Split<u8, NP>), false);
        fact($v, format!("&mut U{}: Split<U{}> must not exist", $n, $np), impls!(&'static mut GA<u8, N>: Split<u8, NP>), false);
        fact($v, format!("U{}: Split<U{}> exists with Second = U0", $n, $n), impls!(GA<u8, N>: Split<u8, N, First = GA<u8, N>, Second = GA<u8, U<0>>>), true);
        fact($v, format!("U{}: Split<U0> exists with Second = U{}", $n, $n), impls!(GA<u8, N>: Split<u8, U<0>, First = GA<u8, U<0>>, Second = GA<u8, N>>), true);
        fact($v, format!("U{}: Concat<U1> gives U{}", $n, $np), impls!(GA<u8, N>: Concat<u8, U<1>, Output = GA<u8, NP>>), true);
        fact($v, format!("U{}: Concat<U1> must not give U{}", $n, $n), impls!(GA<u8, N>: Concat<u8, U<1>, Output = GA<u8, N>>), false);
        fact($v, format!("Const<{}> maps to U{}", $n, $n), impls!(Const<$n>: IntoArrayLength<ArrayLength = N>), true);
        fact($v, format!("Const<{}> must not map to U{}", $n, $np), impls!(Const<$n>: IntoArrayLength<ArrayLength = NP>), false);
        fact($v, format!("Const<{}> must not map to U{}", $np, $n), impls!(Const<$np>: IntoArrayLength<ArrayLength = N>), false);
        fact($v, format!("U{} == U{} comparable", $n, $n), impls!(GA<u8, N>: PartialEq<GA<u8, N>>), true);
        fact($v, format!("U{} == U{} must not be comparable", $n, $np), impls!(GA<u8, N>: PartialEq<GA<u8, NP>>), false);
        fact($v, format!("U{} < U{} must not be comparable", $n, $np), impls!(GA<u8, N>: PartialOrd<GA<u8, NP>>), false);
        fact($v, format!("U{}: From<[u8;{}]>", $n, $n), impls!(GA<u8, N>: From<[u8; $n]>), true);
        fact($v, format!("U{}: From<[u8;{}]> must not exist", $n, $np), impls!(GA<u8, N>: From<[u8; $np]>), false);
        fact($v, format!("[u8;{}]: From<U{}> must not exist", $np, $n), impls!([u8; $np]: From<GA<u8, N>>), false);
        fact($v, format!("U{}: AsRef<[u8;{}]>", $n, $n), impls!(GA<u8, N>: AsRef<[u8; $n]>), true);
        fact($v, format!("U{}: AsRef<[u8;{}]> must not exist", $n, $np), impls!(GA<u8, N>: AsRef<[u8; $np]>), false);
        fact($v, format!("U{}: AsMut<[u8;{}]> must not exist", $n, $np), impls!(GA<u8, N>: AsMut<[u8; $np]>), false);
        fact($v, format!("&U{}: From<&[u8;{}]> must not exist", $n, $np), impls!(&'static GA<u8, N>: From<&'static [u8; $np]>), false);
        fact($v, format!("&mut U{}: From<&mut [u8;{}]> must not exist", $n, $np), impls!(&'static mut GA<u8, N>: From<&'static mut [u8; $np]>), false);
    }};
}

macro_rules! nz_facts {
    ($v:expr, $n:literal, $nm:literal) => {{
        type N = U<$n>;
        type NM = U<$nm>;
        fact($v, format!("U{}: Shorten with Shorter = U{}", $n, $nm), impls!(GA<u8, N>: Shorten<u8, Shorter = GA<u8, NM>>), true);
        fact($v, format!("U{}: Remove with Output = U{}", $n, $nm), impls!(GA<u8, N>: Remove<u8, N, Output = GA<u8, NM>>), true);
        fact($v, format!("U{}: Remove with Output = U{} (same length) must not hold", $n, $n), impls!(GA<u8, N>: Remove<u8, N, Output = GA<u8, N>>), false);
        fact($v, format!("U{}: Split<U1> gives (U1, U{})", $n, $nm), impls!(GA<u8, N>: Split<u8, U<1>, First = GA<u8, U<1>>, Second = GA<u8, NM>>), true);
        fact($v, format!("U{}: Split<U1> must not give (U1, U{})", $n, $n), impls!(GA<u8, N>: Split<u8, U<1>, First = GA<u8, U<1>>, Second = GA<u8, N>>), false);
    }};
}

macro_rules! flat_facts {
    ($v:expr, $n:literal, $m:literal, $nm:literal, $wrong:literal) => {{
        fact($v, format!("flatten U{}xU{} gives U{}", $n, $m, $nm), impls!(GA<GA<u8, U<$n>>, U<$m>>: Flatten<u8, U<$n>, U<$m>, Output = GA<u8, U<$nm>>>), true);
        fact($v, format!("flatten U{}xU{} must not give U{}", $n, $m, $wrong), impls!(GA<GA<u8, U<$n>>, U<$m>>: Flatten<u8, U<$n>, U<$m>, Output = GA<u8, U<$wrong>>>), false);
        fact($v, format!("&flatten U{}xU{} gives &U{}", $n, $m, $nm), impls!(&'static GA<GA<u8, U<$n>>, U<$m>>: Flatten<u8, U<$n>, U<$m>, Output = &'static GA<u8, U<$nm>>>), true);
        fact($v, format!("&mut flatten U{}xU{} must not give &mut U{}", $n, $m, $wrong), impls!(&'static mut GA<GA<u8, U<$n>>, U<$m>>: Flatten<u8, U<$n>, U<$m>, Output = &'static mut GA<u8, U<$wrong>>>), false);
        fact($v, format!("unflatten U{} by U{} gives U{} rows", $nm, $n, $m), impls!(GA<u8, U<$nm>>: Unflatten<u8, U<$nm>, U<$n>, Output = GA<GA<u8, U<$n>>, U<$m>>>), true);
        fact($v, format!("unflatten U{} by U{} must not give U{} rows", $nm, $n, $wrong), impls!(GA<u8, U<$nm>>: Unflatten<u8, U<$nm>, U<$n>, Output = GA<GA<u8, U<$n>>, U<$wrong>>>), false);
    }};
}

macro_rules! tuple_facts {
    ($v:expr, $n:literal, $np:literal, ($($t:ty),*)) => {{
        fact($v, format!("U{}: From<{}-tuple>", $n, $n), impls!(GA<i32, U<$n>>: From<($($t,)*)>), true);
        fact($v, format!("U{}: From<{}-tuple> must not exist", $np, $n), impls!(GA<i32, U<$np>>: From<($($t,)*)>), false);
        fact($v, format!("{}-tuple: From<U{}>", $n, $n), impls!(($($t,)*): From<GA<i32, U<$n>>>), true);
        fact($v, format!("{}-tuple: From<U{}> must not exist", $n, $np), impls!(($($t,)*): From<GA<i32, U<$np>>>), false);
    }};
}

/// Correct programs at the edges of the type-level arithmetic, *instantiated and run* (not only
/// type-checked): an error that appears only at monomorphisation time — a const assertion inside
/// a generic body, say — passes `cargo check` and fails here, when this binary is built.
fn edge_instantiations(st: &mut Stats) {
    use generic_array::sequence::{Concat, Lengthen, Remove, Shorten, Split};
    use generic_array::{arr, GenericArray};
    use vkit::typenum::U;
    st.check_case("C12", "edge_instantiations", "i32/String", || "C12 edge instantiations (split at 0 and at N, concat with empty, pop to empty, remove the only element)".to_string(), true, || {
        let a = arr![1, 2, 3];
        let (h, t): (GenericArray<i32, U<3>>, GenericArray<i32, U<0>>) = Split::split(a);
        if h.len() != 3 || t.len() != 0 {
            return Err("LengthMismatch: split at N".into());
        }
        let (h, t): (GenericArray<i32, U<0>>, GenericArray<i32, U<3>>) = Split::split(h);
        let _ = (h, &t);
        let mut b = arr![1, 2, 3];
        {
            let (h, t): (&GenericArray<i32, U<3>>, &GenericArray<i32, U<0>>) = Split::split(&b);
            let _ = (h.len(), t.len());
        }
        {
            let (h, t): (&mut GenericArray<i32, U<3>>, &mut GenericArray<i32, U<0>>) = Split::split(&mut b);
            h[0] = 9;
            let _ = t.len();
        }
        {
            let (h, t): (&mut GenericArray<i32, U<0>>, &mut GenericArray<i32, U<3>>) = Split::split(&mut b);
            t[2] = 7;
            let _ = h.len();
        }
        let mut e: GenericArray<String, U<0>> = arr![];
        {
            let (x, y): (&GenericArray<String, U<0>>, &GenericArray<String, U<0>>) = Split::split(&e);
            let _ = (x.len(), y.len());
        }
        {
            let (x, y): (&mut GenericArray<String, U<0>>, &mut GenericArray<String, U<0>>) = Split::split(&mut e);
            let _ = (x.len(), y.len());
        }
        let (x, y): (GenericArray<String, U<0>>, GenericArray<String, U<0>>) = Split::split(e);
        let z: GenericArray<String, U<0>> = Concat::concat(x, y);
        let one: GenericArray<String, U<1>> = z.append(String::from("a"));
        let (none, s): (GenericArray<String, U<0>>, String) = one.pop_back();
        let one: GenericArray<String, U<1>> = none.prepend(s);
        let (s, none): (String, GenericArray<String, U<0>>) = one.pop_front();
        let one: GenericArray<String, U<1>> = Concat::concat(none, arr![s]);
        let (s, none): (String, GenericArray<String, U<0>>) = one.remove(0);
        let one: GenericArray<String, U<1>> = Concat::concat(arr![s], none);
        let (s, _none): (String, GenericArray<String, U<0>>) = one.swap_remove(0);
        if s != "a" || b != arr![9, 2, 7] {
            return Err("ContentMismatch: edge instantiations".into());
        }
        Ok(())
    });
}

fn main() {
    let args = Args::parse();
    let mut st = Stats::new("traitprobe", &args);
    edge_instantiations(&mut st);
    let mut v: Vec<Fact> = Vec::new();
    auto_lens!(&mut v, [0, 1, 2, 3, 8, 16, 1024]);
    len_facts!(&mut v, 0, 1, 0);
    len_facts!(&mut v, 1, 2, 0);
    len_facts!(&mut v, 2, 3, 1);
    len_facts!(&mut v, 3, 4, 2);
    len_facts!(&mut v, 7, 8, 6);
    len_facts!(&mut v, 8, 9, 7);
    len_facts!(&mut v, 16, 17, 15);
    len_facts!(&mut v, 255, 256, 254);
    len_facts!(&mut v, 1023, 1024, 1022);
    nz_facts!(&mut v, 1, 0);
    nz_facts!(&mut v, 2, 1);
    nz_facts!(&mut v, 3, 2);
    nz_facts!(&mut v, 8, 7);
    nz_facts!(&mut v, 16, 15);
    nz_facts!(&mut v, 256, 255);
    nz_facts!(&mut v, 1024, 1023);
    flat_facts!(&mut v, 2, 3, 6, 5);
    flat_facts!(&mut v, 3, 2, 6, 7);
    flat_facts!(&mut v, 1, 4, 4, 5);
    flat_facts!(&mut v, 4, 4, 16, 8);
    flat_facts!(&mut v, 16, 64, 1024, 512);
    tuple_facts!(&mut v, 1, 2, (i32));
    tuple_facts!(&mut v, 2, 3, (i32, i32));
    tuple_facts!(&mut v, 3, 4, (i32, i32, i32));
    tuple_facts!(&mut v, 4, 5, (i32, i32, i32, i32));
    tuple_facts!(&mut v, 5, 6, (i32, i32, i32, i32, i32));
    tuple_facts!(&mut v, 6, 7, (i32, i32, i32, i32, i32, i32));
    tuple_facts!(&mut v, 7, 8, (i32, i32, i32, i32, i32, i32, i32));
    tuple_facts!(&mut v, 8, 9, (i32, i32, i32, i32, i32, i32, i32, i32));
    tuple_facts!(&mut v, 9, 10, (i32, i32, i32, i32, i32, i32, i32, i32, i32));
    tuple_facts!(&mut v, 10, 11, (i32, i32, i32, i32, i32, i32, i32, i32, i32, i32));
    tuple_facts!(&mut v, 11, 12, (i32, i32, i32, i32, i32, i32, i32, i32, i32, i32, i32));
    tuple_facts!(&mut v, 12, 13, (i32, i32, i32, i32, i32, i32, i32, i32, i32, i32, i32, i32));
    for f in v {
        let Some(desc) = st.select(|| format!("C12 fact {}", f.what)) else { continue };
        if f.observed != f.expected {
            let fam = f.what.split(':').next().unwrap_or("fact").split('<').next().unwrap_or("fact").trim().to_string();
            st.violation("C12", &format!("traitfact|{fam}|{}", if f.observed { "HoldsButMustNot" } else { "MissingImpl" }), &desc, &format!("trait solver says {}, expected {}", f.observed, f.expected));
        }
        st.op("fact");
        st.done(&desc, true);
    }
    st.finish();
}
