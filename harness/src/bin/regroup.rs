//! regroup — C11: flatten / unflatten regroup elements in row-major order over the
//! same storage.  Owned, & and &mut forms; by-reference results must have the same
//! address and total extent, and writes through a regrouped &mut must show in the
//! original.  All (N, M) in 0..=6 x 0..=6 where the type-level operator exists,
//! plus boundary pairs.

use core::ops::{Div, Mul};
use generic_array::sequence::{Flatten, GenericSequence, Unflatten};
use generic_array::typenum::{Prod, Quot};
use generic_array::{ArrayLength, GenericArray};
use vkit::typenum::U;
use vkit::{Args, Elem, HeapTok, Stats, Tok, Tok24, ZTok};

include!("../tables.rs");

type GA<E, N> = GenericArray<E, N>;

fn nested<E: Elem, N: ArrayLength, M: ArrayLength>() -> (GA<GA<E, N>, M>, Vec<u64>) {
    let a: GA<GA<E, N>, M> = GA::<GA<E, N>, M>::generate(|_| GA::<E, N>::generate(|_| E::fresh()));
    let k = a.iter().flat_map(|i| i.iter().map(|e| e.key())).collect();
    (a, k)
}
fn flat<E: Elem, N: ArrayLength>() -> (GA<E, N>, Vec<u64>) {
    let a = GA::<E, N>::generate(|_| E::fresh());
    let k = a.iter().map(|e| e.key()).collect();
    (a, k)
}

fn same<E: Elem>(what: &str, got: &[u64], want: &[u64]) -> Result<(), String> {
    if got.len() != want.len() {
        return Err(format!("LengthMismatch: {what}: {} elements, expected {}", got.len(), want.len()));
    }
    if E::KEYED && got != want {
        return Err(format!("OrderMismatch: {what}: {got:x?} != {want:x?}"));
    }
    Ok(())
}

fn t_flatten<E: Elem, N, M, NM>(st: &mut Stats)
where
    N: ArrayLength + Mul<M>,
    M: ArrayLength,
    NM: ArrayLength,
    Prod<N, M>: ArrayLength,
    GA<GA<E, N>, M>: Flatten<E, N, M, Output = GA<E, NM>>,
    for<'a> &'a GA<GA<E, N>, M>: Flatten<E, N, M, Output = &'a GA<E, NM>>,
    for<'a> &'a mut GA<GA<E, N>, M>: Flatten<E, N, M, Output = &'a mut GA<E, NM>>,
{
    let (n, m) = (N::USIZE, M::USIZE);
    let nontrivial = n * m > 0;
    st.check_case("C11", "flatten.owned", E::NAME, || format!("C11 flatten.owned {} N={n} M={m}", E::NAME), nontrivial, || {
        let (a, want) = nested::<E, N, M>();
        // row-major: element i*N + j is inner[i][j]
        for i in 0..m {
            for j in 0..n {
                if E::KEYED && a[i][j].key() != want[i * n + j] {
                    return Err("HarnessBug: model order".into());
                }
            }
        }
        let f: GA<E, NM> = a.flatten();
        same::<E>("flatten", &f.iter().map(|e| e.key()).collect::<Vec<_>>(), &want)
    });
    st.check_case("C11", "flatten.ref", E::NAME, || format!("C11 flatten.ref {} N={n} M={m}", E::NAME), nontrivial, || {
        let (a, want) = nested::<E, N, M>();
        let base = &a as *const _ as usize;
        let bytes = core::mem::size_of_val(&a);
        let f: &GA<E, NM> = (&a).flatten();
        if f as *const _ as usize != base {
            return Err("AddressMismatch: &flatten is not a view of the same memory".into());
        }
        if core::mem::size_of_val(f) != bytes || f.len() != n * m {
            return Err(format!("ExtentMismatch: &flatten spans {} bytes / {} elements, source {} bytes", core::mem::size_of_val(f), f.len(), bytes));
        }
        same::<E>("&flatten", &f.iter().map(|e| e.key()).collect::<Vec<_>>(), &want)
    });
    st.check_case("C11", "flatten.mut", E::NAME, || format!("C11 flatten.mut {} N={n} M={m}", E::NAME), nontrivial, || {
        let (mut a, mut want) = nested::<E, N, M>();
        let base = &a as *const _ as usize;
        {
            let f: &mut GA<E, NM> = (&mut a).flatten();
            if f as *const _ as usize != base || f.len() != n * m {
                return Err("AddressMismatch: &mut flatten is not a view of the same memory".into());
            }
            for idx in [0usize, 1, (n * m) / 2, (n * m).wrapping_sub(1)] {
                if idx < n * m {
                    let x = E::fresh();
                    want[idx] = x.key();
                    f[idx] = x;
                }
            }
        }
        let got: Vec<u64> = a.iter().flat_map(|i| i.iter().map(|e| e.key())).collect();
        same::<E>("&mut flatten write-through", &got, &want)
    });
}

fn t_unflatten<E: Elem, NM, N, M>(st: &mut Stats)
where
    NM: ArrayLength + Div<N>,
    N: ArrayLength,
    M: ArrayLength,
    Quot<NM, N>: ArrayLength,
    GA<E, NM>: Unflatten<E, NM, N, Output = GA<GA<E, N>, M>>,
    for<'a> &'a GA<E, NM>: Unflatten<E, NM, N, Output = &'a GA<GA<E, N>, M>>,
    for<'a> &'a mut GA<E, NM>: Unflatten<E, NM, N, Output = &'a mut GA<GA<E, N>, M>>,
{
    let (nm, n, m) = (NM::USIZE, N::USIZE, M::USIZE);
    let nontrivial = nm > 0;
    st.check_case("C11", "unflatten.owned", E::NAME, || format!("C11 unflatten.owned {} NM={nm} N={n} M={m}", E::NAME), nontrivial, || {
        let (a, want) = flat::<E, NM>();
        let u: GA<GA<E, N>, M> = a.unflatten();
        if u.len() != m {
            return Err(format!("LengthMismatch: unflatten gives {} inner arrays, expected {m}", u.len()));
        }
        for i in 0..m {
            for j in 0..n {
                if E::KEYED && u[i][j].key() != want[i * n + j] {
                    return Err(format!("OrderMismatch: unflattened[{i}][{j}] is not element {}", i * n + j));
                }
            }
        }
        Ok(())
    });
    st.check_case("C11", "unflatten.ref", E::NAME, || format!("C11 unflatten.ref {} NM={nm} N={n} M={m}", E::NAME), nontrivial, || {
        let (a, want) = flat::<E, NM>();
        let base = &a as *const _ as usize;
        let u: &GA<GA<E, N>, M> = (&a).unflatten();
        if u as *const _ as usize != base {
            return Err("AddressMismatch: &unflatten is not a view of the same memory".into());
        }
        if core::mem::size_of_val(u) != core::mem::size_of_val(&a) || u.len() != m {
            return Err(format!("ExtentMismatch: &unflatten spans {} bytes, source {}", core::mem::size_of_val(u), core::mem::size_of_val(&a)));
        }
        let got: Vec<u64> = u.iter().flat_map(|i| i.iter().map(|e| e.key())).collect();
        same::<E>("&unflatten", &got, &want)
    });
    st.check_case("C11", "unflatten.mut", E::NAME, || format!("C11 unflatten.mut {} NM={nm} N={n} M={m}", E::NAME), nontrivial, || {
        let (mut a, mut want) = flat::<E, NM>();
        let base = &a as *const _ as usize;
        {
            let u: &mut GA<GA<E, N>, M> = (&mut a).unflatten();
            if u as *const _ as usize != base || u.len() != m {
                return Err("AddressMismatch: &mut unflatten is not a view of the same memory".into());
            }
            for (i, j) in [(0usize, 0usize), (m.wrapping_sub(1), n.wrapping_sub(1)), (m / 2, n / 2)] {
                if i < m && j < n {
                    let x = E::fresh();
                    want[i * n + j] = x.key();
                    u[i][j] = x;
                }
            }
        }
        same::<E>("&mut unflatten write-through", &a.iter().map(|e| e.key()).collect::<Vec<_>>(), &want)
    });
}

/// flatten followed by unflatten (and the reverse) is the identity on identities
fn t_inverse<E: Elem, N, M, NM>(st: &mut Stats)
where
    N: ArrayLength + Mul<M>,
    M: ArrayLength,
    NM: ArrayLength + Div<N>,
    Prod<N, M>: ArrayLength,
    Quot<NM, N>: ArrayLength,
    GA<GA<E, N>, M>: Flatten<E, N, M, Output = GA<E, NM>>,
    GA<E, NM>: Unflatten<E, NM, N, Output = GA<GA<E, N>, M>>,
{
    let (n, m) = (N::USIZE, M::USIZE);
    st.check_case("C11", "inverse", E::NAME, || format!("C11 inverse {} N={n} M={m}", E::NAME), n * m > 0, || {
        let (a, want) = nested::<E, N, M>();
        let back: GA<GA<E, N>, M> = a.flatten().unflatten();
        let got: Vec<u64> = back.iter().flat_map(|i| i.iter().map(|e| e.key())).collect();
        same::<E>("unflatten(flatten(x))", &got, &want)?;
        let again: GA<E, NM> = back.flatten();
        same::<E>("flatten(unflatten(flatten(x)))", &again.iter().map(|e| e.key()).collect::<Vec<_>>(), &want)
    });
}

macro_rules! do_flatten { ($st:expr, $args:expr, $E:ty; $(($n:literal,$m:literal,$nm:literal))*) => { $( if $nm <= $args.maxn && $n <= $args.maxn && $m <= $args.maxn { t_flatten::<$E, U<$n>, U<$m>, U<$nm>>($st); } )* }; }
macro_rules! do_unflatten { ($st:expr, $args:expr, $E:ty; $(($nm:literal,$n:literal,$m:literal))*) => { $( if $nm <= $args.maxn && $n <= $args.maxn && $m <= $args.maxn { t_unflatten::<$E, U<$nm>, U<$n>, U<$m>>($st); t_inverse::<$E, U<$n>, U<$m>, U<$nm>>($st); } )* }; }

macro_rules! small_for {
    ($st:expr, $args:expr, $($E:ty),*) => { $(
        if $args.flavour_on(<$E as Elem>::NAME) {
            tbl_flatten!(do_flatten; $st, $args, $E);
            tbl_unflatten!(do_unflatten; $st, $args, $E);
        }
    )* };
}
macro_rules! big_for {
    ($st:expr, $args:expr, $($E:ty),*) => { $(
        if $args.flavour_on(<$E as Elem>::NAME) {
            tbl_flatten_big!(do_flatten; $st, $args, $E);
            tbl_unflatten_big!(do_unflatten; $st, $args, $E);
        }
    )* };
}

fn main() {
    let args = Args::parse();
    let mut st = Stats::new("regroup", &args);
    if args.part_on("small") {
        small_for!(&mut st, args, Tok, ZTok, u32, Tok24, HeapTok, (), String);
    }
    if args.part_on("big") {
        big_for!(&mut st, args, Tok, ZTok, u32);
    }
    if args.part_on("fat") && args.flavour_on("FatTok") {
        // 130 x 512 B = 65 KiB, 144 x 512 B = 72 KiB: above any 64 KiB threshold, every element tracked
        tbl_flatten_fat!(do_flatten; &mut st, args, vkit::FatTok);
        tbl_unflatten_fat!(do_unflatten; &mut st, args, vkit::FatTok);
    }
    st.finish();
}
