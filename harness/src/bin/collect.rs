//! collect — C07: try_from_iter / from_iter / try_boxed_from_iter / Box::from_iter
//! driven by scripted sources over the grid
//!   N x delivered count c in 0..=N+3 x size-hint policy x fused/non-fused x panic index.
//! The oracle is computed from what the script actually delivered, in the
//! statement's own terms.

use generic_array::{ArrayLength, GenericArray};
use vkit::script::{Hint, ScriptIter, HINTS};
use vkit::typenum::U;
use vkit::{fault, Args, Caught, Elem, HeapTok, Stats, Tok, ZTok};

type GA<E, N> = GenericArray<E, N>;

#[derive(Clone, Copy, Debug, PartialEq)]
enum Form {
    TryStack,
    TryBoxed,
    FromIterStack,
    FromIterBoxed,
}
const FORMS: &[Form] = &[Form::TryStack, Form::TryBoxed, Form::FromIterStack, Form::FromIterBoxed];

impl Form {
    fn name(self) -> &'static str {
        match self {
            Form::TryStack => "try_from_iter",
            Form::TryBoxed => "try_boxed_from_iter",
            Form::FromIterStack => "from_iter",
            Form::FromIterBoxed => "from_iter.box",
        }
    }
}

enum Outcome {
    Ok(Vec<u64>),
    Err,
    /// from_iter panicked with this message
    Panicked(String),
    Injected,
}

fn run_form<E: Elem, N: ArrayLength>(form: Form, src: ScriptIter<E>, marked: bool) -> Outcome {
    if marked {
        return run_form_it::<E, N, _>(form, vkit::script::MarkedFused(src));
    }
    run_form_it::<E, N, _>(form, src)
}

fn run_form_it<E: Elem, N: ArrayLength, I: Iterator<Item = E>>(form: Form, src: I) -> Outcome {
    let r = vkit::catch(move || match form {
        Form::TryStack => GA::<E, N>::try_from_iter(src).ok().map(|a| a.iter().map(|e| e.key()).collect::<Vec<u64>>()),
        Form::TryBoxed => GA::<E, N>::try_boxed_from_iter(src).ok().map(|a| a.iter().map(|e| e.key()).collect::<Vec<u64>>()),
        Form::FromIterStack => Some(src.collect::<GA<E, N>>().iter().map(|e| e.key()).collect::<Vec<u64>>()),
        Form::FromIterBoxed => Some(src.collect::<Box<GA<E, N>>>().iter().map(|e| e.key()).collect::<Vec<u64>>()),
    });
    match r {
        Caught::Returned(Some(k)) => Outcome::Ok(k),
        Caught::Returned(None) => Outcome::Err,
        Caught::Injected(..) => Outcome::Injected,
        Caught::Other(m) => Outcome::Panicked(m),
    }
}

fn grid<E: Elem, N: ArrayLength>(st: &mut Stats, args: &Args) {
    let n = N::USIZE;
    let mut hints: Vec<Hint> = HINTS.to_vec();
    hints.extend([
        Hint::Fixed(n, Some(n)),
        Hint::Fixed(n + 1, None),
        Hint::Fixed(0, Some(n.saturating_sub(1))),
        Hint::Fixed(n, None),
        Hint::Fixed(0, Some(n)),
        Hint::Fixed(n + 1, Some(n + 1)),
        // inconsistent hints (lower > upper): whatever they mean, they rule N out when
        // lower > N or upper < N
        Hint::Fixed(n + 3, Some(n + 1)),
        Hint::Fixed(n + 1, Some(n.saturating_sub(1))),
        Hint::Fixed(usize::MAX, Some(0)),
    ]);
    if n >= 3 {
        hints.push(Hint::Fixed(n - 1, Some(n - 3)));
    }
    for c in 0..=n + 3 {
        for &hint in &hints {
            for fused in [true, false] {
                for &form in FORMS {
                    // panic indices: None (no fault) in quick for every cell; every reachable index too
                    let max_calls = c.min(n) + 1;
                    let mut panics: Vec<Option<usize>> = vec![None];
                    if args.part_on("panic") {
                        panics.extend((0..max_calls).map(Some));
                    }
                    for pa in panics {
                        cell::<E, N>(st, c, hint, fused, form, pa);
                    }
                }
            }
        }
    }
}

fn cell<E: Elem, N: ArrayLength>(st: &mut Stats, c: usize, hint: Hint, fused: bool, form: Form, panic_at: Option<usize>) {
    let n = N::USIZE;
    let nontrivial = c > 0;
    st.check_case(
        "C07",
        form.name(),
        E::NAME,
        || format!("C07 {} {} N={n} c={c} hint={} fused={fused} panic_at={panic_at:?}", form.name(), E::NAME, hint.name()),
        nontrivial,
        || {
            let (src, log) = ScriptIter::<E>::new(c, hint, fused, panic_at);
            // a fused script may truthfully carry the FusedIterator marker
            let marked = fused && (c + n) % 2 == 0;
            let out = run_form::<E, N>(form, src, marked);
            let log = log.borrow().clone();
            // ---- properties that hold whatever the outcome
            if log.polls > n + 1 {
                return Err(format!("TooManyPolls: pulled {} items/polls, at most N+1 = {} allowed", log.polls, n + 1));
            }
            if log.polls_after_none > 0 {
                return Err(format!("PolledAfterNone: source polled {} more time(s) after it returned None", log.polls_after_none));
            }
            // what the source answers to size_hint() when the collection starts — whether or not
            // the implementation asks ("a size_hint that already rules N out" is about the source)
            let h0 = hint.eval(c);
            let ruled_out = h0.0 > n || h0.1.map(|h| h < n).unwrap_or(false);
            let truthful = hint.truthful(c);
            let fault_reached = panic_at.map(|k| log.polls > k).unwrap_or(false);
            let expect_n = format!("expected {n} items");
            match out {
                Outcome::Injected => {
                    if !fault_reached {
                        return Err("HarnessBug: injected outcome without reaching the fault index".into());
                    }
                    Ok(()) // the ledger (closed by check_case) decides exactly-once for the pulled items
                }
                _ if fault_reached => Err("PanicSwallowed: the source's panic did not propagate".into()),
                Outcome::Ok(k) => {
                    if matches!(form, Form::TryStack | Form::TryBoxed | Form::FromIterStack | Form::FromIterBoxed) {
                        if c != n {
                            return Err(format!("WrongOk: Ok although the source produced {c} items before ending, N = {n}"));
                        }
                        if ruled_out {
                            return Err(format!("WrongOk: Ok although the size hint {h0:?} rules N = {n} out"));
                        }
                        if k.len() != n {
                            return Err(format!("WrongOk: result holds {} elements", k.len()));
                        }
                        if E::KEYED && k[..] != log.yielded[..n] {
                            return Err(format!("ContentMismatch: element i is not the i-th item: {k:x?} vs {:x?}", &log.yielded[..n]));
                        }
                    }
                    Ok(())
                }
                Outcome::Err => {
                    if matches!(form, Form::FromIterStack | Form::FromIterBoxed) {
                        return Err("HarnessBug: from_iter returned Err".into());
                    }
                    if c == n && truthful && !ruled_out {
                        return Err(format!("WrongErr: LengthError although exactly N = {n} items were produced and the hint {h0:?} is truthful"));
                    }
                    Ok(())
                }
                Outcome::Panicked(m) => {
                    if matches!(form, Form::TryStack | Form::TryBoxed) {
                        return Err(format!("Panic: fallible form panicked: {m}"));
                    }
                    if c == n && truthful && !ruled_out {
                        return Err(format!("WrongErr: from_iter panicked ({m}) although exactly N items were produced with a truthful hint"));
                    }
                    if !m.contains(&expect_n) {
                        return Err(format!("WrongMessage: from_iter panicked with {m:?}, expected the '{expect_n}' message"));
                    }
                    Ok(())
                }
            }
        },
    );
    st.count("polls_cells", 1);
    let _ = fault::fired();
}

/// large arrays (total size above 1 KiB): boundary counts only, no panic grid
fn grid_large<E: Elem, N: ArrayLength>(st: &mut Stats) {
    let n = N::USIZE;
    let hints = [Hint::Exact, Hint::Unknown, Hint::Loose, Hint::UpperHigh, Hint::LowerLow, Hint::Fixed(n, Some(n)), Hint::Fixed(0, Some(n)), Hint::Fixed(n, None)];
    for c in [0, 1, n - 1, n, n + 1, n + 2, n + 3] {
        for &hint in &hints {
            for fused in [true, false] {
                for &form in FORMS {
                    cell::<E, N>(st, c, hint, fused, form, None);
                    if c >= n {
                        // a panic exactly on the surplus probe and on the last element
                        cell::<E, N>(st, c, hint, fused, form, Some(n));
                        cell::<E, N>(st, c, hint, fused, form, Some(n - 1));
                    }
                }
            }
        }
    }
}

/// lengths no allocator can serve (10^18 bytes): the boxed forms must answer a size hint that
/// rules N out with LengthError / the "expected N items" panic *before* asking for the block —
/// an implementation that allocates first dies in handle_alloc_error instead
fn huge_n_boxed(st: &mut Stats) {
    type Huge = generic_array::typenum::U1000000000000000000;
    let n = <Huge as generic_array::typenum::Unsigned>::USIZE;
    for (c, hint) in [(0usize, Hint::Exact), (3, Hint::Exact), (5, Hint::Fixed(0, Some(7))), (2, Hint::UpperLow), (4, Hint::Fixed(1, Some(1 << 40)))] {
        for boxed_collect in [false, true] {
            let form = if boxed_collect { "from_iter.box" } else { "try_boxed_from_iter" };
            st.check_case("C07", form, "u8", || format!("C07 {form} u8 N={n} c={c} hint={} (no block of N bytes can exist)", hint.name()), true, || {
                let (src, log) = ScriptIter::<u8>::new(c, hint, true, None);
                let r = vkit::catch(move || {
                    if boxed_collect {
                        let b: Box<GA<u8, Huge>> = src.collect();
                        Some(b.len())
                    } else {
                        GA::<u8, Huge>::try_boxed_from_iter(src).ok().map(|b| b.len())
                    }
                });
                let log = log.borrow().clone();
                if log.polls > 0 && log.polls > c + 1 {
                    return Err(format!("TooManyPolls: {} polls of a {c}-item source", log.polls));
                }
                match r {
                    Caught::Returned(Some(_)) => Err("WrongOk: an array of 10^18 elements was returned".into()),
                    Caught::Returned(None) => Ok(()),
                    Caught::Other(m) if boxed_collect && m.contains(&format!("expected {n} items")) => Ok(()),
                    Caught::Other(m) => Err(format!("Panic: {m}")),
                    Caught::Injected(..) => Err("HarnessBug: injected".into()),
                }
            });
        }
    }
}

/// the top of the length range: N = usize::MAX exists for zero-sized elements.  Every source
/// that can be produced is too short, so the answer is always LengthError / the length panic
/// (arithmetic like N + 1 must not get in the way), after at most c + 1 polls.
fn max_n_zst(st: &mut Stats) {
    type Max = generic_array::typenum::Sum<generic_array::typenum::U9223372036854775808, generic_array::typenum::U9223372036854775807>;
    let n = <Max as generic_array::typenum::Unsigned>::USIZE;
    assert_eq!(n, usize::MAX);
    for (c, hint) in [(0usize, Hint::Unknown), (3, Hint::Unknown), (3, Hint::Exact), (5, Hint::LowerLow), (2, Hint::Fixed(0, Some(usize::MAX))), (4, Hint::Fixed(usize::MAX, None))] {
        for form in [Form::TryStack, Form::TryBoxed, Form::FromIterStack, Form::FromIterBoxed] {
            st.check_case("C07", form.name(), "()", || format!("C07 {} () N=usize::MAX c={c} hint={}", form.name(), hint.name()), true, || {
                let (src, log) = ScriptIter::<()>::new(c, hint, true, None);
                let r = vkit::catch(move || match form {
                    Form::TryStack => GA::<(), Max>::try_from_iter(src).is_ok(),
                    Form::TryBoxed => GA::<(), Max>::try_boxed_from_iter(src).is_ok(),
                    Form::FromIterStack => {
                        let a: GA<(), Max> = src.collect();
                        a.len() == usize::MAX
                    }
                    Form::FromIterBoxed => {
                        let a: Box<GA<(), Max>> = src.collect();
                        a.len() == usize::MAX
                    }
                });
                let log = log.borrow().clone();
                if log.polls > c + 1 {
                    return Err(format!("TooManyPolls: {} polls of a {c}-item source", log.polls));
                }
                let fallible = matches!(form, Form::TryStack | Form::TryBoxed);
                match r {
                    Caught::Returned(true) => Err("WrongOk: an array of usize::MAX elements from a handful of items".into()),
                    Caught::Returned(false) if fallible => Ok(()),
                    Caught::Returned(false) => Err("WrongOk: collect returned".into()),
                    Caught::Other(m) if !fallible && m.contains(&format!("expected {n} items")) => Ok(()),
                    Caught::Other(m) if fallible => Err(format!("Panic: fallible form panicked: {m}")),
                    Caught::Other(m) => Err(format!("WrongMessage: collect panicked with {m:?}, expected the 'expected {n} items' message")),
                    Caught::Injected(..) => Err("HarnessBug: injected".into()),
                }
            });
        }
    }
}

macro_rules! lens {
    ($st:expr, $args:expr, $E:ty, [$($v:literal),*]) => { $( if $v <= $args.maxn { grid::<$E, U<$v>>($st, &$args); } )* };
}

fn main() {
    let args = Args::parse();
    let mut st = Stats::new("collect", &args);
    if args.flavour_on("Tok") {
        lens!(&mut st, args, Tok, [0, 1, 2, 3, 4, 5, 6, 7, 8]);
        if args.thorough() {
            lens!(&mut st, args, Tok, [16, 17, 33]);
        }
    }
    if args.flavour_on("u32") {
        lens!(&mut st, args, u32, [0, 1, 2, 3, 5, 8]);
    }
    if args.flavour_on("ZTok") {
        lens!(&mut st, args, ZTok, [0, 1, 2, 3, 8]);
    }
    if args.flavour_on("HeapTok") {
        lens!(&mut st, args, HeapTok, [0, 1, 2, 3, 4, 5]);
    }
    if args.part_on("large") && args.maxn >= 200 && args.flavour_on("u32") && !cfg!(miri) {
        huge_n_boxed(&mut st);
        max_n_zst(&mut st);
    }
    if args.part_on("large") && args.maxn >= 200 {
        // > 1 KiB by many small elements and by a few fat ones
        if args.flavour_on("Tok") {
            grid_large::<Tok, U<129>>(&mut st);
            grid_large::<Tok, U<200>>(&mut st);
            grid_large::<vkit::Tok24, U<65>>(&mut st);
        }
        if args.flavour_on("Fat") {
            grid_large::<vkit::Fat, U<2>>(&mut st);
            grid_large::<vkit::Fat, U<3>>(&mut st);
            grid_large::<vkit::Fat, U<9>>(&mut st);
        }
        if args.flavour_on("u32") {
            grid_large::<u32, U<257>>(&mut st);
            grid_large::<u32, U<1024>>(&mut st);
        }
    }
    st.finish();
}
