//! seqops — C09: Lengthen / Shorten / Split / Concat / Remove against Vec.
//!
//! Exhaustive for N in 0..=8 (every K <= N, every (N, M) with N+M <= 8, every index
//! 0..=N+1 and usize::MAX), boundary shapes in the thorough tier.  Expected values
//! come from the same operation on a `Vec` of the elements' identities.  The type
//! parameters also pin the *inferred result lengths* (a wrong `Longer`/`Output`
//! type would not compile here).

use generic_array::sequence::{Concat, GenericSequence, Lengthen, Remove, Shorten, Split};
use generic_array::{ArrayLength, GenericArray};
use vkit::typenum::U;
use vkit::{Args, Elem, Fat, FatTok, HeapTok, Stats, Tok, Tok24, ZTok};

include!("../tables.rs");

type GA<E, N> = GenericArray<E, N>;

fn mk<E: Elem, N: ArrayLength>() -> (GA<E, N>, Vec<u64>) {
    let a = GA::<E, N>::generate(|_| E::fresh());
    let k = a.iter().map(|e| e.key()).collect();
    (a, k)
}

fn keys<E: Elem>(s: &[E]) -> Vec<u64> {
    s.iter().map(|e| e.key()).collect()
}

fn same<E: Elem>(what: &str, got: &[u64], want: &[u64]) -> Result<(), String> {
    if got.len() != want.len() {
        return Err(format!("LengthMismatch: {what}: {} elements, Vec has {}", got.len(), want.len()));
    }
    if E::KEYED && got != want {
        return Err(format!("ContentMismatch: {what}: {got:x?} != Vec's {want:x?}"));
    }
    Ok(())
}

fn t_lengthen<E: Elem, N: ArrayLength, M: ArrayLength>(st: &mut Stats)
where
    GA<E, N>: Lengthen<E, Longer = GA<E, M>>,
    GA<E, M>: Shorten<E, Shorter = GA<E, N>>,
{
    let n = N::USIZE;
    st.check_case("C09", "append", E::NAME, || format!("C09 append {} N={n}", E::NAME), true, || {
        let (a, mut v) = mk::<E, N>();
        let x = E::fresh();
        v.push(x.key());
        let b: GA<E, M> = a.append(x);
        same::<E>("append", &keys(&b), &v)
    });
    st.check_case("C09", "prepend", E::NAME, || format!("C09 prepend {} N={n}", E::NAME), true, || {
        let (a, mut v) = mk::<E, N>();
        let x = E::fresh();
        v.insert(0, x.key());
        let b: GA<E, M> = a.prepend(x);
        same::<E>("prepend", &keys(&b), &v)
    });
    st.check_case("C09", "pop_back", E::NAME, || format!("C09 pop_back {} N={}", E::NAME, n + 1), true, || {
        let (a, mut v) = mk::<E, M>();
        let (init, last): (GA<E, N>, E) = a.pop_back();
        let want_last = v.pop().unwrap();
        if E::KEYED && last.key() != want_last {
            return Err(format!("ReturnMismatch: pop_back returned {:x}, Vec::pop {:x}", last.key(), want_last));
        }
        same::<E>("pop_back rest", &keys(&init), &v)
    });
    st.check_case("C09", "pop_front", E::NAME, || format!("C09 pop_front {} N={}", E::NAME, n + 1), true, || {
        let (a, mut v) = mk::<E, M>();
        let (head, tail): (E, GA<E, N>) = a.pop_front();
        let want = v.remove(0);
        if E::KEYED && head.key() != want {
            return Err(format!("ReturnMismatch: pop_front returned {:x}, Vec::remove(0) {:x}", head.key(), want));
        }
        same::<E>("pop_front rest", &keys(&tail), &v)
    });
    // round trips: append then pop_back, prepend then pop_front
    st.check_case("C09", "append_pop_roundtrip", E::NAME, || format!("C09 append_pop_roundtrip {} N={n}", E::NAME), n > 0, || {
        let (a, v) = mk::<E, N>();
        let x = E::fresh();
        let xk = x.key();
        let (back, y) = a.append(x).pop_back();
        if E::KEYED && y.key() != xk {
            return Err("ReturnMismatch: append then pop_back returned another element".into());
        }
        let z = E::fresh();
        let zk = z.key();
        let (w, back2) = back.prepend(z).pop_front();
        if E::KEYED && w.key() != zk {
            return Err("ReturnMismatch: prepend then pop_front returned another element".into());
        }
        same::<E>("roundtrip", &keys(&back2), &v)
    });
}

fn t_split<E: Elem, N: ArrayLength, K: ArrayLength, R: ArrayLength>(st: &mut Stats)
where
    GA<E, N>: Split<E, K, First = GA<E, K>, Second = GA<E, R>>,
    for<'a> &'a GA<E, N>: Split<E, K, First = &'a GA<E, K>, Second = &'a GA<E, R>>,
    for<'a> &'a mut GA<E, N>: Split<E, K, First = &'a mut GA<E, K>, Second = &'a mut GA<E, R>>,
{
    let (n, k) = (N::USIZE, K::USIZE);
    let sz = core::mem::size_of::<E>();
    st.check_case("C09", "split.owned", E::NAME, || format!("C09 split.owned {} N={n} K={k}", E::NAME), n > 0, || {
        let (a, v) = mk::<E, N>();
        let (h, t): (GA<E, K>, GA<E, R>) = a.split();
        let (vh, vt) = v.split_at(k);
        same::<E>("split head", &keys(&h), vh)?;
        same::<E>("split tail", &keys(&t), vt)
    });
    st.check_case("C09", "split.ref", E::NAME, || format!("C09 split.ref {} N={n} K={k}", E::NAME), n > 0, || {
        let (a, v) = mk::<E, N>();
        let base = a.as_ptr() as usize;
        let (h, t): (&GA<E, K>, &GA<E, R>) = (&a).split();
        if h.as_ptr() as usize != base {
            return Err(format!("AddressMismatch: first half at {:#x}, array at {base:#x}", h.as_ptr() as usize));
        }
        if t.as_ptr() as usize != base + k * sz {
            return Err(format!("AddressMismatch: second half at +{}, expected +{}", (t.as_ptr() as usize).wrapping_sub(base), k * sz));
        }
        if h.as_slice().len() != k || t.as_slice().len() != n - k || core::mem::size_of_val(h) + core::mem::size_of_val(t) != n * sz {
            return Err("ExtentMismatch: halves do not cover the array".into());
        }
        let (vh, vt) = v.split_at(k);
        same::<E>("split.ref head", &keys(h), vh)?;
        same::<E>("split.ref tail", &keys(t), vt)
    });
    st.check_case("C09", "split.mut", E::NAME, || format!("C09 split.mut {} N={n} K={k}", E::NAME), n > 0, || {
        let (mut a, mut v) = mk::<E, N>();
        let base = a.as_ptr() as usize;
        {
            let (h, t): (&mut GA<E, K>, &mut GA<E, R>) = (&mut a).split();
            if h.as_ptr() as usize != base || t.as_ptr() as usize != base + k * sz {
                return Err("AddressMismatch: &mut halves are not the two sub-ranges of the storage".into());
            }
            if h.as_slice().len() != k || t.as_slice().len() != n - k {
                return Err("ExtentMismatch: &mut halves have wrong lengths".into());
            }
            // write through each half (first and last slot of each), both halves live at once
            for (half, off) in [(h.as_mut_slice(), 0usize), (t.as_mut_slice(), k)] {
                let l = half.len();
                for i in [0usize, l.wrapping_sub(1)] {
                    if i < l {
                        let x = E::fresh();
                        v[off + i] = x.key();
                        half[i] = x;
                    }
                }
            }
        }
        same::<E>("split.mut write-through", &keys(&a), &v)
    });
}

fn t_concat<E: Elem, N: ArrayLength, M: ArrayLength, S: ArrayLength>(st: &mut Stats)
where
    GA<E, N>: Concat<E, M, Rest = GA<E, M>, Output = GA<E, S>>,
    GA<E, S>: Split<E, N, First = GA<E, N>, Second = GA<E, M>>,
{
    let (n, m) = (N::USIZE, M::USIZE);
    st.check_case("C09", "concat", E::NAME, || format!("C09 concat {} N={n} M={m}", E::NAME), n + m > 0, || {
        let (a, mut v) = mk::<E, N>();
        let (b, w) = mk::<E, M>();
        v.extend(w.iter().copied());
        let c: GA<E, S> = a.concat(b);
        same::<E>("concat", &keys(&c), &v)?;
        // and split undoes it
        let (a2, b2) = c.split();
        same::<E>("concat/split head", &keys(&a2), &v[..n])?;
        same::<E>("concat/split tail", &keys(&b2), &v[n..])
    });
}

fn t_remove<E: Elem, N: ArrayLength, M: ArrayLength>(st: &mut Stats)
where
    GA<E, N>: Remove<E, N, Output = GA<E, M>>,
{
    let n = N::USIZE;
    for i in (0..=n + 1).chain([usize::MAX, usize::MAX / 2 + 1]) {
        for swap in [false, true] {
            let op = if swap { "swap_remove" } else { "remove" };
            st.check_case("C09", op, E::NAME, || format!("C09 {op} {} N={n} i={i}", E::NAME), true, || {
                let (a, mut v) = mk::<E, N>();
                let r = vkit::catch(move || if swap { a.swap_remove(i) } else { a.remove(i) });
                match r {
                    vkit::Caught::Returned((x, rest)) => {
                        if i >= n {
                            return Err(format!("NoPanic: {op}({i}) on length {n} returned instead of panicking"));
                        }
                        let want = if swap { v.swap_remove(i) } else { v.remove(i) };
                        if E::KEYED && x.key() != want {
                            return Err(format!("ReturnMismatch: {op}({i}) returned {:x}, Vec gives {:x}", x.key(), want));
                        }
                        let rest: GA<E, M> = rest;
                        same::<E>(op, &keys(&rest), &v)
                    }
                    vkit::Caught::Other(_msg) => {
                        if i < n {
                            Err(format!("Panic: {op}({i}) on length {n} panicked: {_msg}"))
                        } else {
                            Ok(()) // out of range must panic; the ledger then checks every element was dropped once
                        }
                    }
                    vkit::Caught::Injected(..) => Err("HarnessBug: injected".into()),
                }
            });
        }
    }
    for i in 0..n {
        for swap in [false, true] {
            let op = if swap { "swap_remove_unchecked" } else { "remove_unchecked" };
            st.check_case("C09", op, E::NAME, || format!("C09 {op} {} N={n} i={i}", E::NAME), true, || {
                let (a, mut v) = mk::<E, N>();
                let (x, rest): (E, GA<E, M>) = unsafe { if swap { a.swap_remove_unchecked(i) } else { a.remove_unchecked(i) } };
                let want = if swap { v.swap_remove(i) } else { v.remove(i) };
                if E::KEYED && x.key() != want {
                    return Err(format!("ReturnMismatch: {op}({i}) returned {:x}, Vec gives {:x}", x.key(), want));
                }
                same::<E>(op, &keys(&rest), &v)
            });
        }
    }
}

/// For large N only a few indices.
fn t_remove_sampled<E: Elem, N: ArrayLength, M: ArrayLength>(st: &mut Stats)
where
    GA<E, N>: Remove<E, N, Output = GA<E, M>>,
{
    let n = N::USIZE;
    let mut idx = vec![0, 1, 2, 3, n / 4, n / 2 - 1, n / 2, n / 2 + 1, n - 3, n - 2, n - 1];
    idx.retain(|i| *i < n);
    idx.sort();
    idx.dedup();
    for i in idx {
        for swap in [false, true] {
            let op = if swap { "swap_remove" } else { "remove" };
            st.check_case("C09", op, E::NAME, || format!("C09 {op} {} N={n} i={i}", E::NAME), true, || {
                let (a, mut v) = mk::<E, N>();
                let (x, rest): (E, GA<E, M>) = if swap { a.swap_remove(i) } else { a.remove(i) };
                let want = if swap { v.swap_remove(i) } else { v.remove(i) };
                if E::KEYED && x.key() != want {
                    return Err(format!("ReturnMismatch: {op}({i}) returned {:x}, Vec gives {:x}", x.key(), want));
                }
                same::<E>(op, &keys(&rest), &v)
            });
        }
    }
}

/// out-of-range indices on large arrays must panic too (and drop everything once)
fn t_remove_oob_large<E: Elem, N: ArrayLength, M: ArrayLength>(st: &mut Stats)
where
    GA<E, N>: Remove<E, N, Output = GA<E, M>>,
{
    let n = N::USIZE;
    for i in [n, n + 1, usize::MAX / 2, usize::MAX - 1, usize::MAX] {
        for swap in [false, true] {
            let op = if swap { "swap_remove" } else { "remove" };
            st.check_case("C09", op, E::NAME, || format!("C09 {op} {} N={n} i={i}", E::NAME), true, || {
                let (a, _v) = mk::<E, N>();
                match vkit::catch(move || if swap { a.swap_remove(i) } else { a.remove(i) }) {
                    vkit::Caught::Returned(_) => Err(format!("NoPanic: {op}({i}) on length {n} returned instead of panicking")),
                    vkit::Caught::Other(_) => Ok(()),
                    vkit::Caught::Injected(..) => Err("HarnessBug: injected".into()),
                }
            });
        }
    }
}

macro_rules! do_lengthen { ($st:expr, $args:expr, $E:ty; $(($n:literal,$m:literal))*) => { $( if $m <= $args.maxn.saturating_add(1) { t_lengthen::<$E, U<$n>, U<$m>>($st); t_remove::<$E, U<$m>, U<$n>>($st); } )* }; }
macro_rules! do_lengthen_big { ($st:expr, $args:expr, $E:ty; $(($n:literal,$m:literal))*) => { $( if $m <= $args.maxn.saturating_add(1) { t_lengthen::<$E, U<$n>, U<$m>>($st); t_remove_sampled::<$E, U<$m>, U<$n>>($st); t_remove_oob_large::<$E, U<$m>, U<$n>>($st); } )* }; }
macro_rules! do_split { ($st:expr, $args:expr, $E:ty; $(($n:literal,$k:literal,$r:literal))*) => { $( if $n <= $args.maxn { t_split::<$E, U<$n>, U<$k>, U<$r>>($st); } )* }; }
macro_rules! do_concat { ($st:expr, $args:expr, $E:ty; $(($n:literal,$m:literal,$s:literal))*) => { $( if $s <= $args.maxn { t_concat::<$E, U<$n>, U<$m>, U<$s>>($st); } )* }; }

macro_rules! small_for {
    ($st:expr, $args:expr, $($E:ty),*) => { $(
        if $args.flavour_on(<$E as Elem>::NAME) {
            tbl_lengthen!(do_lengthen; $st, $args, $E);
            tbl_split!(do_split; $st, $args, $E);
            tbl_concat!(do_concat; $st, $args, $E);
        }
    )* };
}
macro_rules! big_for {
    ($st:expr, $args:expr, $($E:ty),*) => { $(
        if $args.flavour_on(<$E as Elem>::NAME) {
            tbl_lengthen_big!(do_lengthen_big; $st, $args, $E);
            tbl_split_big!(do_split; $st, $args, $E);
            tbl_concat_big!(do_concat; $st, $args, $E);
        }
    )* };
}

fn main() {
    let args = Args::parse();
    let mut st = Stats::new("seqops", &args);
    if args.part_on("small") {
        small_for!(&mut st, args, Tok, Tok24, ZTok, HeapTok, u8, u32, [u64; 3], (), String, [u8; 3], Fat, FatTok);
    }
    if args.part_on("big") && (args.thorough() || args.kv.contains_key("big")) {
        big_for!(&mut st, args, Tok, ZTok, u8, [u64; 3]);
    }
    st.finish();
}
