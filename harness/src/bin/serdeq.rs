//! serdeq — C17: arrays serialise as fixed-size tuples and deserialisation rejects
//! any other length.
//!  * a recording Serializer captures the call sequence (serialize_tuple(N), N x
//!    serialize_element in index order, end);
//!  * JSON text / bincode bytes / serde_json::Value are compared with the encodings
//!    of the same elements as a tuple / Vec / concatenation, and round-tripped;
//!  * a scripted Deserializer/SeqAccess delivers every element count 0..=N+2 under
//!    every up-front hint (none, exact, too small, too large) and running-hint
//!    policy, with an element error at every index; elements are ledger-tracked.
//! Out of the claim (generated, counted, not judged): a source that reports
//! "nothing left" (size_hint() == Some(0)) while still holding elements.

use generic_array::sequence::GenericSequence;
use generic_array::{ArrayLength, GenericArray};
use serde::de::{self, DeserializeSeed, Deserializer, SeqAccess, Visitor};
use serde::ser::{self, Serialize, SerializeTuple, Serializer};
use serde::Deserialize;
use std::cell::RefCell;
use std::fmt;
use std::rc::Rc;
use vkit::typenum::U;
use vkit::{ledger, Args, Stats, Tok};

type GA<E, N> = GenericArray<E, N>;

// ------------------------------------------------------------------ errors

#[derive(Debug)]
struct E(String);
impl fmt::Display for E {
    fn fmt(&self, f: &mut fmt::Formatter) -> fmt::Result {
        f.write_str(&self.0)
    }
}
impl std::error::Error for E {}
impl ser::Error for E {
    fn custom<T: fmt::Display>(m: T) -> Self {
        E(m.to_string())
    }
}
impl de::Error for E {
    fn custom<T: fmt::Display>(m: T) -> Self {
        E(m.to_string())
    }
}

// ------------------------------------------------------------------ recording serializer

#[derive(Default)]
struct SerLog(Vec<String>);
struct RecSer<'a>(&'a RefCell<SerLog>);
struct RecTuple<'a>(&'a RefCell<SerLog>);

macro_rules! unsupported {
    ($($f:ident($($t:ty),*) -> $r:ty;)*) => { $( fn $f(self $(, _: $t)*) -> Result<$r, E> { self.0.borrow_mut().0.push(concat!("UNEXPECTED ", stringify!($f)).into()); Err(E(concat!("unexpected ", stringify!($f)).into())) } )* };
}

impl<'a> Serializer for RecSer<'a> {
    type Ok = ();
    type Error = E;
    type SerializeSeq = ser::Impossible<(), E>;
    type SerializeTuple = RecTuple<'a>;
    type SerializeTupleStruct = ser::Impossible<(), E>;
    type SerializeTupleVariant = ser::Impossible<(), E>;
    type SerializeMap = ser::Impossible<(), E>;
    type SerializeStruct = ser::Impossible<(), E>;
    type SerializeStructVariant = ser::Impossible<(), E>;

    fn serialize_tuple(self, len: usize) -> Result<RecTuple<'a>, E> {
        self.0.borrow_mut().0.push(format!("tuple({len})"));
        Ok(RecTuple(self.0))
    }
    fn serialize_u8(self, v: u8) -> Result<(), E> {
        self.0.borrow_mut().0.push(format!("u8:{v}"));
        Ok(())
    }
    fn serialize_u64(self, v: u64) -> Result<(), E> {
        self.0.borrow_mut().0.push(format!("u64:{v}"));
        Ok(())
    }
    fn serialize_str(self, v: &str) -> Result<(), E> {
        self.0.borrow_mut().0.push(format!("str:{v}"));
        Ok(())
    }
    fn serialize_unit(self) -> Result<(), E> {
        self.0.borrow_mut().0.push("unit".into());
        Ok(())
    }
    fn serialize_seq(self, len: Option<usize>) -> Result<Self::SerializeSeq, E> {
        self.0.borrow_mut().0.push(format!("UNEXPECTED seq({len:?})"));
        Err(E("array serialised as a variable-length sequence".into()))
    }
    unsupported! {
        serialize_bool(bool) -> (); serialize_i8(i8) -> (); serialize_i16(i16) -> (); serialize_i32(i32) -> (); serialize_i64(i64) -> ();
        serialize_u16(u16) -> (); serialize_u32(u32) -> (); serialize_f32(f32) -> (); serialize_f64(f64) -> (); serialize_char(char) -> ();
        serialize_bytes(&[u8]) -> (); serialize_none() -> (); serialize_unit_struct(&'static str) -> ();
        serialize_unit_variant(&'static str, u32, &'static str) -> ();
        serialize_tuple_struct(&'static str, usize) -> ser::Impossible<(), E>;
        serialize_tuple_variant(&'static str, u32, &'static str, usize) -> ser::Impossible<(), E>;
        serialize_map(Option<usize>) -> ser::Impossible<(), E>;
        serialize_struct(&'static str, usize) -> ser::Impossible<(), E>;
        serialize_struct_variant(&'static str, u32, &'static str, usize) -> ser::Impossible<(), E>;
    }
    fn serialize_some<T: ?Sized + Serialize>(self, _: &T) -> Result<(), E> {
        Err(E("unexpected some".into()))
    }
    fn serialize_newtype_struct<T: ?Sized + Serialize>(self, _: &'static str, _: &T) -> Result<(), E> {
        Err(E("unexpected newtype".into()))
    }
    fn serialize_newtype_variant<T: ?Sized + Serialize>(self, _: &'static str, _: u32, _: &'static str, _: &T) -> Result<(), E> {
        Err(E("unexpected newtype variant".into()))
    }
}
impl<'a> SerializeTuple for RecTuple<'a> {
    type Ok = ();
    type Error = E;
    fn serialize_element<T: ?Sized + Serialize>(&mut self, value: &T) -> Result<(), E> {
        self.0.borrow_mut().0.push("element".into());
        value.serialize(RecSer(self.0))
    }
    fn end(self) -> Result<(), E> {
        self.0.borrow_mut().0.push("end".into());
        Ok(())
    }
}

// ------------------------------------------------------------------ tracked element

/// ledger-tracked element that deserialises from a u64 (one ledger entry per element read)
struct DTok {
    t: Tok,
    v: u64,
}
impl<'de> Deserialize<'de> for DTok {
    fn deserialize<D: Deserializer<'de>>(d: D) -> Result<DTok, D::Error> {
        let v = u64::deserialize(d)?;
        Ok(DTok { t: Tok::new(), v })
    }
}
impl Serialize for DTok {
    fn serialize<S: Serializer>(&self, s: S) -> Result<S::Ok, S::Error> {
        let _ = self.t.raw_id();
        s.serialize_u64(self.v)
    }
}

/// zero-sized element with a destructor (ledger by count): deserialises from a u64 it discards
struct DZ(vkit::ZTok);
impl<'de> Deserialize<'de> for DZ {
    fn deserialize<D: Deserializer<'de>>(d: D) -> Result<DZ, D::Error> {
        let _ = u64::deserialize(d)?;
        Ok(DZ(<vkit::ZTok as vkit::Elem>::fresh()))
    }
}

/// what the scripted grid needs from its element type
trait DEl: for<'de> Deserialize<'de> + 'static {
    const NAME: &'static str;
    /// the value it was deserialised from, when the type keeps it
    fn val(&self) -> Option<u64>;
    /// an element made outside the deserialiser (contents of a pre-initialised place)
    fn placeholder(i: usize) -> Self;
}
impl DEl for DTok {
    const NAME: &'static str = "DTok";
    fn val(&self) -> Option<u64> {
        Some(self.v)
    }
    fn placeholder(i: usize) -> DTok {
        DTok { t: Tok::new(), v: 7000 + i as u64 }
    }
}
impl DEl for DZ {
    const NAME: &'static str = "DZ(zero-sized,Drop)";
    fn val(&self) -> Option<u64> {
        None
    }
    fn placeholder(_: usize) -> DZ {
        DZ(<vkit::ZTok as vkit::Elem>::fresh())
    }
}
impl DEl for u16 {
    const NAME: &'static str = "u16";
    fn val(&self) -> Option<u64> {
        Some(*self as u64)
    }
    fn placeholder(i: usize) -> u16 {
        i as u16
    }
}

// ------------------------------------------------------------------ scripted deserializer

#[derive(Clone, Copy, Debug, PartialEq)]
enum Upfront {
    None,
    Exact,    // == N
    TooSmall, // N-1 (or 0 when N == 0 -> same as exact, skipped)
    TooLarge, // N+1
    Delivered, // the truth about what will be delivered
    /// a fixed announcement, whatever N and the delivery are
    Fixed(usize),
}
#[derive(Clone, Copy, Debug, PartialEq)]
enum Running {
    None,
    Truthful,
    /// claims one more than is really left
    OneMore,
    /// claims nothing is left although elements remain (the carved-out source)
    NothingLeftLie,
}

#[derive(Default, Debug, Clone)]
struct DeLog {
    next_calls: usize,
    elements_given: usize,
    hints_asked: usize,
    none_returned: usize,
    calls_after_none: usize,
}

struct ScriptDe {
    human_readable: bool,
    n: usize,
    deliver: usize,
    upfront: Upfront,
    running: Running,
    err_at: Option<usize>,
    log: Rc<RefCell<DeLog>>,
}
struct ScriptSeq {
    n: usize,
    deliver: usize,
    given: usize,
    upfront: Upfront,
    running: Running,
    err_at: Option<usize>,
    first_hint_done: std::cell::Cell<bool>,
    said_none: bool,
    log: Rc<RefCell<DeLog>>,
}
struct ElemDe(u64);

impl<'de> Deserializer<'de> for ElemDe {
    type Error = E;
    fn deserialize_any<V: Visitor<'de>>(self, v: V) -> Result<V::Value, E> {
        v.visit_u64(self.0)
    }
    serde::forward_to_deserialize_any! {
        bool i8 i16 i32 i64 i128 u8 u16 u32 u64 u128 f32 f64 char str string bytes byte_buf option unit unit_struct newtype_struct seq tuple tuple_struct map struct enum identifier ignored_any
    }
}

impl<'de> SeqAccess<'de> for ScriptSeq {
    type Error = E;
    fn next_element_seed<T: DeserializeSeed<'de>>(&mut self, seed: T) -> Result<Option<T::Value>, E> {
        {
            let mut l = self.log.borrow_mut();
            l.next_calls += 1;
            if self.said_none {
                l.calls_after_none += 1;
            }
        }
        if self.given < self.deliver {
            let i = self.given;
            self.given += 1;
            if self.err_at == Some(i) {
                return Err(E(format!("element {i} fails to parse")));
            }
            self.log.borrow_mut().elements_given += 1;
            seed.deserialize(ElemDe(1000 + i as u64)).map(Some)
        } else {
            self.said_none = true;
            self.log.borrow_mut().none_returned += 1;
            Ok(None)
        }
    }
    fn size_hint(&self) -> Option<usize> {
        self.log.borrow_mut().hints_asked += 1;
        let left = self.deliver - self.given;
        if self.given == 0 && !self.first_hint_done.replace(true) {
            // the up-front announcement (only the first question, before any element)
            return match self.upfront {
                Upfront::None => None,
                Upfront::Exact => Some(self.n),
                Upfront::TooSmall => Some(self.n.saturating_sub(1)),
                Upfront::TooLarge => Some(self.n + 1),
                Upfront::Delivered => Some(left),
                Upfront::Fixed(h) => Some(h),
            };
        }
        match self.running {
            Running::None => None,
            Running::Truthful => Some(left),
            Running::OneMore => Some(left + 1),
            Running::NothingLeftLie => Some(0),
        }
    }
}

impl<'de> Deserializer<'de> for ScriptDe {
    type Error = E;
    fn is_human_readable(&self) -> bool {
        self.human_readable
    }
    fn deserialize_any<V: Visitor<'de>>(self, _: V) -> Result<V::Value, E> {
        Err(E("only deserialize_tuple is scripted".into()))
    }
    fn deserialize_tuple<V: Visitor<'de>>(self, len: usize, v: V) -> Result<V::Value, E> {
        if len != self.n {
            return Err(E(format!("deserialize_tuple asked for {len}, N = {}", self.n)));
        }
        v.visit_seq(ScriptSeq {
            n: self.n,
            deliver: self.deliver,
            given: 0,
            upfront: self.upfront,
            running: self.running,
            err_at: self.err_at,
            first_hint_done: std::cell::Cell::new(false),
            said_none: false,
            log: self.log,
        })
    }
    serde::forward_to_deserialize_any! {
        bool i8 i16 i32 i64 i128 u8 u16 u32 u64 u128 f32 f64 char str string bytes byte_buf option unit unit_struct newtype_struct seq tuple_struct map struct enum identifier ignored_any
    }
}

// ------------------------------------------------------------------ cases

fn ser_cases<N: ArrayLength>(st: &mut Stats) {
    let n = N::USIZE;
    st.check_case("C17", "serialize.calls", "u8/String", || format!("C17 serialize.calls N={n}"), n > 0, || {
        let a: GA<u8, N> = GA::<u8, N>::generate(|i| (i * 7 + 3) as u8);
        let log = RefCell::new(SerLog::default());
        a.serialize(RecSer(&log)).map_err(|e| format!("CallSequence: serializer error: {e}"))?;
        let mut want = vec![format!("tuple({n})")];
        for x in a.iter() {
            want.push("element".into());
            want.push(format!("u8:{x}"));
        }
        want.push("end".into());
        if log.borrow().0 != want {
            return Err(format!("CallSequence: {:?} instead of tuple({n}), {n} x element in index order, end", &log.borrow().0[..log.borrow().0.len().min(8)]));
        }
        let s: GA<String, N> = GA::<String, N>::generate(|i| format!("s{i}"));
        let log = RefCell::new(SerLog::default());
        s.serialize(RecSer(&log)).map_err(|e| format!("CallSequence: {e}"))?;
        let strs: Vec<String> = log.borrow().0.iter().filter(|l| l.starts_with("str:")).cloned().collect();
        let wants: Vec<String> = (0..n).map(|i| format!("str:s{i}")).collect();
        if strs != wants || log.borrow().0.first() != Some(&format!("tuple({n})")) {
            return Err("CallSequence: String elements not serialised as a tuple in index order".into());
        }
        Ok(())
    });
    st.check_case("C17", "formats", "u8/f64/String/nested", || format!("C17 formats N={n}"), n > 0, || {
        // u8
        let a: GA<u8, N> = GA::<u8, N>::generate(|i| (i * 13 + 1) as u8);
        let v: Vec<u8> = a.to_vec();
        let j = serde_json::to_string(&a).map_err(|e| format!("Json: {e}"))?;
        if j != serde_json::to_string(&v).unwrap() {
            return Err(format!("JsonEncoding: {j} differs from the element list's JSON"));
        }
        let back: GA<u8, N> = serde_json::from_str(&j).map_err(|e| format!("RoundTrip: JSON: {e}"))?;
        if back != a {
            return Err("RoundTrip: JSON".into());
        }
        let b = bincode::serialize(&a).map_err(|e| format!("Bincode: {e}"))?;
        let mut concat = Vec::new();
        for x in &v {
            concat.extend(bincode::serialize(x).unwrap());
        }
        if b != concat {
            return Err(format!("BincodeEncoding: {} bytes, expected the {} bytes of the elements' encodings and no length prefix", b.len(), concat.len()));
        }
        if bincode::serialized_size(&a).unwrap() as usize != concat.len() {
            return Err("BincodeEncoding: serialized_size".into());
        }
        let back: GA<u8, N> = bincode::deserialize(&b).map_err(|e| format!("RoundTrip: bincode: {e}"))?;
        if back != a {
            return Err("RoundTrip: bincode".into());
        }
        let val = serde_json::to_value(&a).unwrap();
        let back: GA<u8, N> = serde_json::from_value(val).map_err(|e| format!("RoundTrip: Value: {e}"))?;
        if back != a {
            return Err("RoundTrip: serde_json::Value".into());
        }
        // f64, String, nested
        let f: GA<f64, N> = GA::<f64, N>::generate(|i| i as f64 * 0.5 - 1.0);
        let jf = serde_json::to_string(&f).unwrap();
        if serde_json::from_str::<GA<f64, N>>(&jf).map_err(|e| format!("RoundTrip: f64 JSON: {e}"))? != f {
            return Err("RoundTrip: f64 JSON".into());
        }
        let bf = bincode::serialize(&f).unwrap();
        if bf.len() != 8 * n || bincode::deserialize::<GA<f64, N>>(&bf).map_err(|e| format!("RoundTrip: {e}"))? != f {
            return Err("BincodeEncoding: f64 array is not 8*N bytes / does not round-trip".into());
        }
        let s: GA<String, N> = GA::<String, N>::generate(|i| format!("é{i}\""));
        let js = serde_json::to_string(&s).unwrap();
        if js != serde_json::to_string(&s.to_vec()).unwrap() || serde_json::from_str::<GA<String, N>>(&js).map_err(|e| format!("RoundTrip: {e}"))? != s {
            return Err("RoundTrip: String JSON".into());
        }
        let bs = bincode::serialize(&s).unwrap();
        if bincode::deserialize::<GA<String, N>>(&bs).map_err(|e| format!("RoundTrip: {e}"))? != s {
            return Err("RoundTrip: String bincode".into());
        }
        let nested: GA<GA<u8, U<2>>, N> = GA::<GA<u8, U<2>>, N>::generate(|i| GA::from_array([i as u8, (i * 3) as u8]));
        let jn = serde_json::to_string(&nested).unwrap();
        if serde_json::from_str::<GA<GA<u8, U<2>>, N>>(&jn).map_err(|e| format!("RoundTrip: {e}"))? != nested {
            return Err("RoundTrip: nested JSON".into());
        }
        let bn = bincode::serialize(&nested).unwrap();
        if bn.len() != 2 * n || bincode::deserialize::<GA<GA<u8, U<2>>, N>>(&bn).map_err(|e| format!("RoundTrip: {e}"))? != nested {
            return Err("BincodeEncoding: nested array is not 2*N bytes / does not round-trip".into());
        }
        Ok(())
    });
    // wrong lengths through the real formats
    st.check_case("C17", "formats.wrong_length", "u8/DTok", || format!("C17 formats.wrong_length N={n}"), true, || {
        for l in [n.wrapping_sub(1), n + 1, n + 2, 0] {
            if l == n || l == usize::MAX {
                continue;
            }
            let v: Vec<u64> = (0..l as u64).collect();
            let j = serde_json::to_string(&v).unwrap();
            if serde_json::from_str::<GA<u64, N>>(&j).is_ok() {
                return Err(format!("WrongLengthAccepted: JSON list of {l} elements accepted for N = {n}"));
            }
            // drop-tracked elements: whatever was read must be released
            if serde_json::from_str::<GA<DTok, N>>(&j).is_ok() {
                return Err(format!("WrongLengthAccepted: JSON list of {l} tracked elements accepted for N = {n}"));
            }
            if serde_json::from_value::<GA<DTok, N>>(serde_json::to_value(&v).unwrap()).is_ok() {
                return Err(format!("WrongLengthAccepted: Value list of {l} elements accepted for N = {n}"));
            }
        }
        // exactly N good elements followed by garbage: the surplus probe itself errors
        let good: Vec<String> = (0..n).map(|i| i.to_string()).collect();
        let txt = if n == 0 { "[ 7".to_string() } else { format!("[{} 7]", good.join(",")) };
        if serde_json::from_str::<GA<DTok, N>>(&txt).is_ok() {
            return Err("WrongLengthAccepted: malformed surplus accepted".into());
        }
        // a bad element at every index
        for k in 0..n {
            let mut parts: Vec<String> = (0..n).map(|i| i.to_string()).collect();
            parts[k] = "\"x\"".into();
            let txt = format!("[{}]", parts.join(","));
            if serde_json::from_str::<GA<DTok, N>>(&txt).is_ok() {
                return Err(format!("BadElementAccepted: element {k} does not parse but the array was returned"));
            }
        }
        // truncated bincode input
        let a: GA<u64, N> = GA::<u64, N>::generate(|i| i as u64);
        let b = bincode::serialize(&a).unwrap();
        if n > 0 && bincode::deserialize::<GA<DTok, N>>(&b[..b.len() - 1]).is_ok() {
            return Err("WrongLengthAccepted: truncated bincode input accepted".into());
        }
        Ok(())
    });
}

/// zero-sized elements still make N tuple slots: () and PhantomData serialise as unit values
fn ser_zst_cases<N: ArrayLength>(st: &mut Stats) {
    let n = N::USIZE;
    st.check_case("C17", "serialize.zero_sized", "()/PhantomData", || format!("C17 serialize.zero_sized N={n}"), n > 0, || {
        let a: GA<(), N> = GA::<(), N>::generate(|_| ());
        let log = RefCell::new(SerLog::default());
        a.serialize(RecSer(&log)).map_err(|e| format!("CallSequence: serializer error: {e}"))?;
        let mut want = vec![format!("tuple({n})")];
        for _ in 0..n {
            want.push("element".into());
            want.push("unit".into());
        }
        want.push("end".into());
        if log.borrow().0 != want {
            return Err(format!("CallSequence: zero-sized elements: {:?} instead of tuple({n}), {n} x (element, unit), end", &log.borrow().0[..log.borrow().0.len().min(8)]));
        }
        let j = serde_json::to_string(&a).map_err(|e| format!("JsonEncoding: {e}"))?;
        let want_j = serde_json::to_string(&vec![(); n]).unwrap();
        if j != want_j {
            return Err(format!("JsonEncoding: {j} instead of {want_j}"));
        }
        let back: GA<(), N> = serde_json::from_str(&j).map_err(|e| format!("RoundTrip: {e}"))?;
        let _ = back;
        let v = serde_json::to_value(&a).map_err(|e| format!("ValueEncoding: {e}"))?;
        if v.as_array().map(|x| x.len()) != Some(n) {
            return Err(format!("ValueEncoding: {v} is not an array of {n} nulls"));
        }
        let p: GA<core::marker::PhantomData<u32>, N> = GA::generate(|_| core::marker::PhantomData);
        let jp = serde_json::to_string(&p).map_err(|e| format!("JsonEncoding: {e}"))?;
        if jp != want_j {
            return Err(format!("JsonEncoding: PhantomData elements: {jp} instead of {want_j}"));
        }
        let _: GA<core::marker::PhantomData<u32>, N> = serde_json::from_str(&jp).map_err(|e| format!("RoundTrip: {e}"))?;
        // wrong lengths of a self-describing input are still rejected
        if n > 0 && serde_json::from_str::<GA<(), N>>("[]").is_ok() {
            return Err("WrongLengthAccepted: [] accepted for N > 0 zero-sized elements".into());
        }
        let more = serde_json::to_string(&vec![(); n + 1]).unwrap();
        if serde_json::from_str::<GA<(), N>>(&more).is_ok() {
            return Err("WrongLengthAccepted: N+1 nulls accepted".into());
        }
        let b = bincode::serialize(&a).map_err(|e| format!("BincodeEncoding: {e}"))?;
        if !b.is_empty() {
            return Err("BincodeEncoding: zero-sized elements produced bytes (a length prefix?)".into());
        }
        Ok(())
    });
}

fn script_cases<N: ArrayLength>(st: &mut Stats) {
    let n = N::USIZE;
    let delivers: Vec<usize> = (0..=n + 2).collect();
    let upfronts = [Upfront::None, Upfront::Exact, Upfront::TooSmall, Upfront::TooLarge, Upfront::Delivered];
    script_grid::<DTok, N>(st, &delivers, &upfronts, true);
    if n <= 5 {
        script_grid::<DZ, N>(st, &delivers, &upfronts, true);
    }
}

/// large N: the up-front announcement compared with N far above any cap a format might apply
/// to its hints (serde's own `size_hint::cautious` clamps at 4096 elements)
fn script_big<N: ArrayLength>(st: &mut Stats) {
    let n = N::USIZE;
    let delivers = [n - 1, n, n + 1];
    let upfronts = [Upfront::None, Upfront::Exact, Upfront::TooSmall, Upfront::TooLarge, Upfront::Fixed(0), Upfront::Fixed(1), Upfront::Fixed(1024), Upfront::Fixed(4095),
                    Upfront::Fixed(4096), Upfront::Fixed(4097), Upfront::Fixed(n / 2), Upfront::Fixed(n - 2), Upfront::Fixed(2 * n), Upfront::Fixed(usize::MAX)];
    script_grid::<u16, N>(st, &delivers, &upfronts, false);
}

fn script_grid<D: DEl, N: ArrayLength>(st: &mut Stats, delivers: &[usize], upfronts: &[Upfront], all_errs: bool) {
    let n = N::USIZE;
    for &deliver in delivers {
        for &upfront in upfronts {
            for running in [Running::None, Running::Truthful, Running::OneMore, Running::NothingLeftLie] {
                let mut errs: Vec<Option<usize>> = vec![None];
                if all_errs {
                    errs.extend((0..deliver.min(n + 1)).map(Some));
                } else {
                    errs.extend([0, n / 2, n - 1].into_iter().filter(|k| *k < deliver).map(Some));
                }
                for err_at in errs {
                  for route in 0..3usize {
                    // route 0: Deserialize::deserialize (human-readable source); 1: the same from a
                    // binary (non-human-readable) source; 2: Deserialize::deserialize_in_place
                    let rname = ["deserialize", "deserialize(binary)", "deserialize_in_place"][route];
                    st.check_case(
                        "C17",
                        "scripted",
                        D::NAME,
                        || format!("C17 scripted {} N={n} deliver={deliver} upfront={upfront:?} running={running:?} err_at={err_at:?} route={rname}", D::NAME),
                        deliver > 0,
                        || {
                            let log = Rc::new(RefCell::new(DeLog::default()));
                            let de = ScriptDe { human_readable: route != 1, n, deliver, upfront, running, err_at, log: log.clone() };
                            let r = if route == 2 {
                                // a fully initialised place, as serde hands to deserialize_in_place
                                let mut place: GA<D, N> = GA::<D, N>::generate(D::placeholder);
                                match <GA<D, N> as Deserialize>::deserialize_in_place(de, &mut place) {
                                    Ok(()) => Ok(place),
                                    Err(e) => Err(e),
                                }
                            } else {
                                GA::<D, N>::deserialize(de)
                            };
                            let l = log.borrow().clone();
                            // what the up-front hint announced
                            let announced: Option<usize> = match upfront {
                                Upfront::None => None,
                                Upfront::Exact => Some(n),
                                Upfront::TooSmall => Some(n.saturating_sub(1)),
                                Upfront::TooLarge => Some(n + 1),
                                Upfront::Delivered => Some(deliver),
                                Upfront::Fixed(h) => Some(h),
                            };
                            let hint_ok = announced.map(|h| h == n).unwrap_or(true);
                            let err_hit = err_at.map(|k| k < n.min(deliver) || (k == n && deliver > n)).unwrap_or(false);
                            // the carved-out source: says "nothing left" while holding surplus elements
                            let out_of_claim = running == Running::NothingLeftLie && deliver > n;
                            match &r {
                                Ok(a) => {
                                    if !hint_ok {
                                        return Err(format!("WrongLengthAccepted: up-front hint {announced:?} != N = {n} but an array was returned"));
                                    }
                                    if deliver < n {
                                        return Err(format!("PartialArray: only {deliver} elements were delivered for N = {n} but an array was returned"));
                                    }
                                    if deliver > n && !out_of_claim {
                                        return Err(format!("WrongLengthAccepted: {deliver} elements offered for N = {n} but an array was returned"));
                                    }
                                    if err_at.map(|k| k < n).unwrap_or(false) {
                                        return Err("BadElementAccepted: an element failed to parse but an array was returned".into());
                                    }
                                    for (i, e) in a.iter().enumerate() {
                                        if let Some(v) = e.val() {
                                            if v != 1000 + i as u64 {
                                                return Err(format!("ContentMismatch: element {i} is {v}"));
                                            }
                                        }
                                    }
                                }
                                Err(_) => {
                                    if hint_ok && deliver == n && !err_hit {
                                        return Err(format!("RightLengthRejected: exactly N = {n} good elements (hint {announced:?}) were rejected"));
                                    }
                                }
                            }
                            if out_of_claim {
                                ledger::mark("out-of-claim source (says nothing left while holding elements)");
                            }
                            if l.calls_after_none > 0 {
                                return Err("PolledAfterEnd: next_element called again after the sequence reported its end".into());
                            }
                            drop(r);
                            Ok(())
                        },
                    );
                    if running == Running::NothingLeftLie && deliver > n {
                        st.count("c17.out_of_claim_cases", 1);
                    }
                    st.count("c17.scripted_cases", 1);
                  }
                }
            }
        }
    }
}

macro_rules! lens {
    ($st:expr, $args:expr, $f:ident, [$($v:literal),*]) => { $( if $v <= $args.maxn { $f::<U<$v>>($st); } )* };
}

fn main() {
    let args = Args::parse();
    let mut st = Stats::new("serdeq", &args);
    if args.part_on("formats") {
        lens!(&mut st, args, ser_cases, [0, 1, 2, 3, 4, 5, 6, 7, 8, 16, 17, 32, 33, 100]);
        lens!(&mut st, args, ser_zst_cases, [0, 1, 2, 3, 5, 8, 17, 100]);
    }
    if args.part_on("scripted") {
        lens!(&mut st, args, script_cases, [0, 1, 2, 3, 4, 5, 6, 7, 8]);
        if args.thorough() {
            lens!(&mut st, args, script_cases, [16, 17, 33]);
        }
        if args.maxn >= 8192 {
            script_big::<generic_array::typenum::Sum<generic_array::typenum::U4096, generic_array::typenum::U1>>(&mut st);
            script_big::<generic_array::typenum::U8192>(&mut st);
        }
    }
    st.finish();
}
