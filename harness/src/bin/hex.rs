//! hex — C14: {:x} / {:X} print exactly each byte's two digits in index order,
//! truncated to min(p, 2N) characters under a precision p.  The reference is the
//! concatenation of per-byte `{:02x}` / `{:02X}`.  The same binary is built with and
//! without the `faster-hex` feature; both are compared with the reference and
//! therefore with each other.

use core::ops::Add;
use generic_array::typenum::Diff;
use generic_array::sequence::GenericSequence;
use generic_array::typenum::{Prod, Sum, U1, U1000, U1024, U2047, U2048, U3, U32768, U4096, U65536};
use generic_array::{ArrayLength, GenericArray};
use std::fmt::Write;
use vkit::typenum::U;
use vkit::{Args, Rng, Stats};

type GA<N> = GenericArray<u8, N>;

fn reference(bytes: &[u8], upper: bool) -> String {
    let mut s = String::with_capacity(bytes.len() * 2);
    for b in bytes {
        if upper {
            write!(s, "{:02X}", b).unwrap();
        } else {
            write!(s, "{:02x}", b).unwrap();
        }
    }
    s
}

fn first_diff(a: &str, b: &str) -> String {
    let i = a.bytes().zip(b.bytes()).position(|(x, y)| x != y).unwrap_or(a.len().min(b.len()));
    let lo = i.saturating_sub(6);
    format!(
        "lengths {} vs {}, first difference at char {i}: ...{:?} vs ...{:?}",
        a.len(),
        b.len(),
        &a.get(lo..(i + 6).min(a.len())).unwrap_or("<non-utf8 boundary>"),
        &b.get(lo..(i + 6).min(b.len())).unwrap_or("")
    )
}

/// Fill the stack region the next call will use with bytes that are neither zero nor
/// valid UTF-8, so that a formatter reading stack memory it never wrote shows up as
/// garbage (or as a failed validity check) instead of happening to read zero pages.
/// Under valgrind / Miri the region below the stack pointer is undefined again on return,
/// so this hides nothing from them.
#[inline(never)]
fn poison_stack(byte: u8) -> u64 {
    use std::sync::OnceLock;
    static OFF: OnceLock<bool> = OnceLock::new();
    // under valgrind (as under Miri) definedness is tracked by the tool itself; the driver
    // passes VKIT_NO_POISON there because 48 KiB of instrumented writes per call is slow
    if *OFF.get_or_init(|| std::env::var_os("VKIT_NO_POISON").is_some()) {
        return 0;
    }
    if cfg!(miri) {
        // the interpreter tracks initialisation itself (and 48 KiB of writes per case is slow there)
        return 0;
    }
    let mut region = [0u8; 48 * 1024];
    for (i, b) in region.iter_mut().enumerate() {
        *b = byte ^ ((i & 1) as u8) << 3;
    }
    std::hint::black_box(&mut region);
    region[17] as u64 + region[40_000] as u64
}

fn precisions(n: usize, rng: &mut Rng, thorough: bool) -> Vec<usize> {
    if n <= 33 || (thorough && n <= 256) {
        (0..=2 * n + 2).collect()
    } else {
        let mut v = vec![0, 1, 2, 3, 31, 32, 33, 2045, 2046, 2047, 2048, 2049, 2050, 4093, 4094, 4095, 4096, 4097, 4098, 6143, 6144, 6145, 2 * n - 3, 2 * n - 2, 2 * n - 1, 2 * n, 2 * n + 1, 2 * n + 2, n, n + 1, 65535];
        for _ in 0..12 {
            v.push(rng.below(2 * n + 1));
            v.push(rng.below(2 * n + 1) | 1);
        }
        // a Formatter carries precision and width as u16; larger run-time values panic in core::fmt itself
        v.retain(|p| (*p <= 2 * n + 2 && *p <= 65535) || *p == 65535);
        v.sort();
        v.dedup();
        v
    }
}

fn t_hex<N>(st: &mut Stats, args: &Args)
where
    N: ArrayLength + Add<N>,
    Sum<N, N>: ArrayLength,
{
    let n = N::USIZE;
    let feature = if cfg!(feature = "fasterhex") { "faster-hex" } else { "default" };
    let patterns: &[&str] = &["identity", "ff", "0f", "f0", "random", "random2"];
    for (pi, pat) in patterns.iter().enumerate() {
        let mut rng = Rng::for_case(args.seed ^ (n as u64) << 8, pi as u64);
        let arr: GA<N> = GA::<N>::generate(|i| match *pat {
            "identity" => (i % 256) as u8,
            "ff" => 0xFF,
            "0f" => 0x0F,
            "f0" => 0xF0,
            _ => rng.byte(),
        });
        let full_l = reference(&arr, false);
        let full_u = reference(&arr, true);
        st.check_case("C14", "hex.full", feature, || format!("C14 hex.full [{feature}] N={n} pattern={pat}"), n > 0, || {
            std::hint::black_box(poison_stack(0xF5));
            let l = format!("{:x}", arr);
            if l != full_l {
                return Err(format!("LowerMismatch: {{:x}}: {}", first_diff(&l, &full_l)));
            }
            std::hint::black_box(poison_stack(0xC0));
            let u = format!("{:X}", arr);
            if u != full_u {
                return Err(format!("UpperMismatch: {{:X}}: {}", first_diff(&u, &full_u)));
            }
            // through a reference, as `{:x}` is usually invoked
            let r = &arr;
            if format!("{r:x}") != full_l {
                return Err("LowerMismatch: through &GenericArray".into());
            }
            Ok(())
        });
        // other format flags do not add anything to the output ("... and nothing else"): width, fill,
        // alignment, sign, `#` and `0` leave exactly the (precision-truncated) digits
        st.check_case("C14", "hex.flags", feature, || format!("C14 hex.flags [{feature}] N={n} pattern={pat}"), n > 0, || {
            std::hint::black_box(poison_stack(0xF5));
            let cut = |p: usize| p.min(2 * n);
            let w = (2 * n + 9).min(65535);
            let got: Vec<(String, String, &str)> = vec![
                (format!("{:w$x}", arr, w = w), full_l.clone(), "{:w$x}"),
                (format!("{:>w$X}", arr, w = w), full_u.clone(), "{:>w$X}"),
                (format!("{:<w$x}", arr, w = w), full_l.clone(), "{:<w$x}"),
                (format!("{:*^w$X}", arr, w = w), full_u.clone(), "{:*^w$X}"),
                (format!("{:0w$x}", arr, w = w), full_l.clone(), "{:0w$x}"),
                (format!("{:#x}", arr), full_l.clone(), "{:#x}"),
                (format!("{:#X}", arr), full_u.clone(), "{:#X}"),
                (format!("{:+x}", arr), full_l.clone(), "{:+x}"),
                (format!("{:w$.7x}", arr, w = w), full_l[..cut(7)].to_string(), "{:w$.7x}"),
                (format!("{:>w$.3X}", arr, w = w), full_u[..cut(3)].to_string(), "{:>w$.3X}"),
                (format!("{:8.0x}", arr), String::new(), "{:8.0x}"),
                (format!("{:#012.5X}", arr), full_u[..cut(5)].to_string(), "{:#012.5X}"),
            ];
            for (g, want, spec) in got {
                if g != want {
                    return Err(format!("FlagsMismatch: {spec} prints {} characters ({:?}...), the digits alone are {} ({:?}...)", g.len(), &g[..g.len().min(24)], want.len(), &want[..want.len().min(24)]));
                }
            }
            Ok(())
        });
        // formatting is re-entrant and thread-safe: a sink that formats ANOTHER array while it is
        // being handed a fragment (a logger that prefixes lines, a tee), and two threads formatting
        // at once, must each see their own digits (a scratch buffer shared between calls would not)
        st.check_case("C14", "hex.reentrant", feature, || format!("C14 hex.reentrant [{feature}] N={n} pattern={pat}"), n > 0, || {
            struct Nest<'a, M: ArrayLength + Add<M>>
            where
                Sum<M, M>: ArrayLength,
            {
                out: String,
                other: &'a GA<M>,
                inner: Vec<String>,
            }
            impl<'a, M: ArrayLength + Add<M>> std::fmt::Write for Nest<'a, M>
            where
                Sum<M, M>: ArrayLength,
            {
                fn write_str(&mut self, frag: &str) -> std::fmt::Result {
                    // format the other array first, then use the fragment we were handed
                    self.inner.push(format!("{:X}", self.other));
                    self.out.push_str(frag);
                    Ok(())
                }
            }
            let other: GA<N> = GA::<N>::generate(|i| 0xFF - (i % 251) as u8);
            let other_u = reference(&other, true);
            let mut sink = Nest { out: String::new(), other: &other, inner: Vec::new() };
            write!(sink, "{:x}", arr).map_err(|e| format!("Panic: {e}"))?;
            if sink.out != full_l {
                return Err(format!("LowerMismatch: formatting into a sink that formats another array meanwhile: {}", first_diff(&sink.out, &full_l)));
            }
            if sink.inner.iter().any(|s| *s != other_u) {
                return Err("UpperMismatch: the array formatted inside the sink came out wrong".into());
            }
            // two threads at once
            let (a1, a2) = (arr.clone(), other.clone());
            let (w1, w2) = (full_u.clone(), reference(&other, false));
            let rounds = if n > 1024 { 40 } else { 8 };
            let t1 = std::thread::spawn(move || (0..rounds).all(|_| format!("{:X}", a1) == w1));
            let t2 = std::thread::spawn(move || (0..rounds).all(|_| format!("{:x}", a2) == w2));
            let (o1, o2) = (t1.join().map_err(|_| "Panic: formatting thread panicked".to_string())?, t2.join().map_err(|_| "Panic: formatting thread panicked".to_string())?);
            if !o1 || !o2 {
                return Err("UpperMismatch: two threads formatting at the same time disturbed each other".into());
            }
            Ok(())
        });
        // sinks that refuse: a sink of limited capacity (refuses everything from some character on)
        // and a sink with one transient failure (refuses exactly the k-th fragment, then accepts
        // again).  Whatever the sink ACCEPTED must be a prefix of the digits -- "in index order and
        // nothing else" leaves no room for a hole -- nothing may be offered after the refusal that
        // is then accepted out of order, and a formatter that was refused must say so (Err).
        st.check_case("C14", "hex.sink", feature, || format!("C14 hex.sink [{feature}] N={n} pattern={pat}"), n > 0, || {
            struct Refusing {
                accepted: String,
                calls: usize,
                refusals: usize,
                fail_call: Option<usize>,
                capacity: Option<usize>,
            }
            impl std::fmt::Write for Refusing {
                fn write_str(&mut self, frag: &str) -> std::fmt::Result {
                    let k = self.calls;
                    self.calls += 1;
                    if self.fail_call == Some(k) || self.capacity.map_or(false, |c| self.accepted.len() + frag.len() > c) {
                        self.refusals += 1;
                        return Err(std::fmt::Error);
                    }
                    self.accepted.push_str(frag);
                    Ok(())
                }
            }
            let mut plans: Vec<(Option<usize>, Option<usize>)> = vec![];
            for k in [0usize, 1, 2, 3, 5, 8] {
                plans.push((Some(k), None));
            }
            for c in [0usize, 1, 2, 3, 2 * n / 2, (2 * n).saturating_sub(1), 2047, 2048, 2049, 4095, 4096, 4097, 6000] {
                if c < 2 * n {
                    plans.push((None, Some(c)));
                }
            }
            if cfg!(miri) {
                // the interpreter pays per byte formatted: one refusal at the start, one in the second
                // block of a long array, one capacity inside each
                plans = vec![(Some(0), None), (Some(1), None), (None, Some(1)), (None, Some(2049))];
                plans.retain(|(_, c)| c.map_or(true, |c| c < 2 * n));
            }
            for upper in [false, true] {
                let want = if upper { &full_u } else { &full_l };
                let precs: &[Option<usize>] = if cfg!(miri) { &[None, Some((2 * n / 3 + 1).min(65535))][..] } else { &[None, Some((2 * n / 3 + 1).min(65535)), Some((2 * n.saturating_sub(1)).min(65535))][..] };
                for precision in precs.iter().copied() {
                    for (fail_call, capacity) in plans.iter().copied() {
                        let mut sink = Refusing { accepted: String::new(), calls: 0, refusals: 0, fail_call, capacity };
                        std::hint::black_box(poison_stack(0xF5));
                        let r = match (upper, precision) {
                            (false, None) => write!(sink, "{:x}", arr),
                            (true, None) => write!(sink, "{:X}", arr),
                            (false, Some(p)) => write!(sink, "{:.p$x}", arr, p = p),
                            (true, Some(p)) => write!(sink, "{:.p$X}", arr, p = p),
                        };
                        let expect = &want[..precision.map_or(2 * n, |p| p.min(2 * n))];
                        let what = format!("sink(fail_call={fail_call:?}, capacity={capacity:?}) precision={precision:?} upper={upper}");
                        if !expect.starts_with(sink.accepted.as_str()) {
                            return Err(format!("SinkHole: {what}: the sink accepted {} characters that are not a prefix of the digits: {}", sink.accepted.len(), first_diff(&sink.accepted, expect)));
                        }
                        if sink.refusals > 0 && r.is_ok() {
                            return Err(format!("SinkErrorSwallowed: {what}: the sink refused a fragment ({} of {} characters delivered) but formatting returned Ok", sink.accepted.len(), expect.len()));
                        }
                        if sink.refusals == 0 && (r.is_err() || sink.accepted != *expect) {
                            return Err(format!("LowerMismatch: {what}: nothing was refused, yet result {:?} / {} of {} characters", r, sink.accepted.len(), expect.len()));
                        }
                    }
                }
            }
            Ok(())
        });
        let ps = precisions(n, &mut rng, args.thorough());
        for p in ps {
            st.check_case("C14", "hex.precision", feature, || format!("C14 hex.precision [{feature}] N={n} pattern={pat} p={p}"), n > 0, || {
                let cut = p.min(2 * n);
                std::hint::black_box(poison_stack(if p % 2 == 0 { 0xFF } else { 0x80 }));
                let l = format!("{:.p$x}", arr, p = p);
                if l != full_l[..cut] {
                    return Err(format!("LowerMismatch: {{:.{p}x}}: {}", first_diff(&l, &full_l[..cut])));
                }
                std::hint::black_box(poison_stack(0xF5));
                let u = format!("{:.p$X}", arr, p = p);
                if u != full_u[..cut] {
                    return Err(format!("UpperMismatch: {{:.{p}X}}: {}", first_diff(&u, &full_u[..cut])));
                }
                Ok(())
            });
        }
    }
}

macro_rules! lens {
    ($st:expr, $args:expr, [$($v:literal),*]) => { $( if $v <= $args.maxn { t_hex::<U<$v>>($st, &$args); } )* };
}

fn main() {
    let args = Args::parse();
    let mut st = Stats::new("hex", &args);
    let only_big = args.kv.contains_key("only_big");
    if !only_big {
        lens!(&mut st, args, [0, 1, 2, 3, 4, 5, 6, 7, 8, 9, 10, 11, 12, 13, 14, 15, 16, 17, 31, 32, 33, 255, 256, 1023, 1024]);
    }
    if args.kv.contains_key("huge") {
        // lengths whose digit count passes what a Formatter can carry as a precision (u16):
        // 2N = 65534 / 65536 / 65538 / 131072
        t_hex::<Diff<U32768, U1>>(&mut st, &args); // 32767
        t_hex::<U32768>(&mut st, &args);
        t_hex::<Sum<U32768, U1>>(&mut st, &args); // 32769
        t_hex::<U65536>(&mut st, &args);
    }
    if args.kv.get("big_n").map(|s| s.as_str()) == Some("1025") {
        t_hex::<Sum<U1024, U1>>(&mut st, &args);
    } else if args.maxn >= 4096 {
        t_hex::<Sum<U1024, U1>>(&mut st, &args); // 1025
        t_hex::<U2047>(&mut st, &args);
        t_hex::<U2048>(&mut st, &args);
        t_hex::<Sum<U2048, U1>>(&mut st, &args); // 2049
        t_hex::<Prod<U1000, U3>>(&mut st, &args); // 3000
        t_hex::<U4096>(&mut st, &args);
    }
    st.finish();
}
