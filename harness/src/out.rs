//! Engine output protocol (one JSON object per line on stdout):
//!   V {...}  a violation:  {"prop","sig","case","detail","log":[...]}
//!   S {...}  the run summary (exactly one, last): counts measured by the engine
//! plus, with --trace, `@ <case>` markers on stderr before every case, so that a
//! crash (signal / sanitizer abort) is attributable.

use crate::alloc::Mask;
use crate::cli::Args;
use crate::ledger;
use std::collections::{BTreeMap, BTreeSet};
use std::io::Write;

pub fn esc(s: &str) -> String {
    let mut o = String::with_capacity(s.len() + 2);
    for c in s.chars() {
        match c {
            '"' => o.push_str("\\\""),
            '\\' => o.push_str("\\\\"),
            '\n' => o.push_str("\\n"),
            '\r' => o.push_str("\\r"),
            '\t' => o.push_str("\\t"),
            c if (c as u32) < 0x20 => o.push_str(&format!("\\u{:04x}", c as u32)),
            c => o.push(c),
        }
    }
    o
}

fn jstr(s: &str) -> String {
    format!("\"{}\"", esc(s))
}

fn jlist(xs: &[String]) -> String {
    let v: Vec<String> = xs.iter().map(|s| jstr(s)).collect();
    format!("[{}]", v.join(","))
}

pub struct Stats {
    pub engine: &'static str,
    args: Args,
    index: u64,
    pub cases: u64,
    nontrivial: BTreeSet<u64>,
    pub counters: BTreeMap<String, u64>,
    /// distinct (op, form, N, ...) labels reached, with counts
    pub ops: BTreeMap<String, u64>,
    samples: Vec<String>,
    pub violations: u64,
    viol_sigs: BTreeSet<String>,
    pub notes: Vec<String>,
    sample_every: u64,
    /// one non-trivial case with the ledger events it produced (what the monitor saw)
    exemplar: Option<(String, Vec<String>)>,
}

fn fnv(s: &str) -> u64 {
    let mut h = 0xcbf2_9ce4_8422_2325u64;
    for b in s.bytes() {
        h = (h ^ b as u64).wrapping_mul(0x100_0000_01b3);
    }
    h
}

impl Stats {
    pub fn new(engine: &'static str, args: &Args) -> Stats {
        crate::fault::install_hook();
        Stats {
            engine,
            args: args.clone(),
            index: 0,
            cases: 0,
            nontrivial: BTreeSet::new(),
            counters: BTreeMap::new(),
            ops: BTreeMap::new(),
            samples: Vec::new(),
            violations: 0,
            viol_sigs: BTreeSet::new(),
            notes: Vec::new(),
            sample_every: 1,
            exemplar: None,
        }
    }

    /// Decide whether the case with this descriptor runs in this process
    /// (shard + --only filter), and announce it.  Enumeration order must be
    /// deterministic.  `desc` is only evaluated for cases of this shard.
    pub fn select(&mut self, desc: impl FnOnce() -> String) -> Option<String> {
        let _m = Mask::new();
        let i = self.index;
        self.index += 1;
        if (i % self.args.shards as u64) != self.args.shard as u64 {
            return None;
        }
        let d = desc();
        if let Some(f) = &self.args.only {
            if !d.contains(f.as_str()) {
                return None;
            }
        }
        if self.args.trace {
            eprintln!("@ {d}");
        }
        Some(d)
    }

    /// Record the outcome of a case that ran.
    pub fn done(&mut self, desc: &str, nontrivial: bool) {
        let _m = Mask::new();
        self.cases += 1;
        if nontrivial {
            self.nontrivial.insert(fnv(desc));
            // keep the richest of the first few event logs as an exemplar
            if self.cases <= 400 || self.exemplar.is_none() {
                let log = ledger::log_excerpt();
                let better = match &self.exemplar {
                    None => !log.is_empty(),
                    Some((_, old)) => log.len() > old.len() && old.len() < 24,
                };
                if better {
                    let mut l = log;
                    l.truncate(40);
                    self.exemplar = Some((desc.to_string(), l));
                }
            }
        }
        // keep a thin, spread-out sample of actual descriptors
        if self.cases % self.sample_every == 0 {
            self.samples.push(desc.to_string());
            if self.samples.len() >= 24 {
                let keep: Vec<String> = self.samples.iter().step_by(2).cloned().collect();
                self.samples = keep;
                self.sample_every *= 2;
            }
        }
    }

    pub fn op(&mut self, label: &str) {
        let _m = Mask::new();
        *self.ops.entry(label.to_string()).or_insert(0) += 1;
    }

    pub fn count(&mut self, key: &str, by: u64) {
        let _m = Mask::new();
        *self.counters.entry(key.to_string()).or_insert(0) += by;
    }

    pub fn note(&mut self, s: String) {
        let _m = Mask::new();
        if self.notes.len() < 32 {
            self.notes.push(s);
        }
    }

    /// Emit a violation line.  `sig` is the stable signature
    /// `prop|op|form|kind|site`; `case` the full replayable descriptor.
    pub fn violation(&mut self, prop: &str, sig: &str, case: &str, detail: &str) {
        let _m = Mask::new();
        self.violations += 1;
        // at most a few lines per signature; the count is still exact
        let key = format!("{prop}|{sig}");
        let first = self.viol_sigs.insert(key.clone());
        let n = self.counters.entry(format!("viol:{key}")).or_insert(0);
        *n += 1;
        if first || *n <= 3 {
            let log = ledger::log_excerpt();
            let out = std::io::stdout();
            let mut o = out.lock();
            let _ = writeln!(
                o,
                "V {{\"prop\":{},\"sig\":{},\"case\":{},\"detail\":{},\"log\":{}}}",
                jstr(prop),
                jstr(sig),
                jstr(case),
                jstr(detail),
                jlist(&log)
            );
            let _ = o.flush();
        }
    }

    /// Convenience: close the ledger for this case and report any ledger violation.
    /// Returns true if the case was clean.
    pub fn judge_ledger(&mut self, prop: &str, op_form: &str, case: &str, allow_leak: bool) -> bool {
        let v = ledger::end_case(allow_leak);
        if v.is_empty() {
            return true;
        }
        let sig = format!("{}|{}", op_form, ledger::kinds(&v));
        let detail = ledger::describe(&v);
        self.violation(prop, &sig, case, &detail);
        false
    }

    /// The common shape of a functional case: select, open the ledger, run `body`
    /// under catch_unwind, turn an `Err("Kind: text")` / unexpected panic into a
    /// violation with signature `op|flavour|Kind`, close the ledger (no leak allowed),
    /// record the case.  Returns whether the case ran.
    pub fn check_case(
        &mut self,
        prop: &str,
        op: &str,
        flav: &str,
        desc: impl FnOnce() -> String,
        nontrivial: bool,
        body: impl FnOnce() -> Result<(), String>,
    ) -> bool {
        let Some(desc) = self.select(desc) else { return false };
        ledger::begin_case();
        crate::fault::reset();
        self.op(op);
        let r = crate::fault::catch(body);
        let res = match r {
            crate::fault::Caught::Returned(x) => x,
            crate::fault::Caught::Injected(s, k) => Err(format!("HarnessBug: injected panic {s}@{k} escaped")),
            crate::fault::Caught::Other(m) => Err(format!("Panic: {m} ({})", crate::fault::last_panic())),
        };
        if let Err(e) = res {
            let kind = e.split(':').next().unwrap_or("Mismatch").to_string();
            self.violation(prop, &format!("{op}|{flav}|{kind}"), &desc, &e);
        }
        self.judge_ledger(prop, &format!("{op}|{flav}"), &desc, false);
        self.done(&desc, nontrivial);
        true
    }

    pub fn finish(mut self) {
        let _m = Mask::new();
        let t = ledger::total_counters();
        self.counters.insert("ledger.creates".into(), t.creates);
        self.counters.insert("ledger.clones".into(), t.clones);
        self.counters.insert("ledger.drops".into(), t.drops);
        self.counters.insert("ledger.observes".into(), t.observes);
        self.counters.insert("ledger.zst_creates".into(), t.zst_creates);
        self.counters.insert("ledger.zst_drops".into(), t.zst_drops);
        let counters: Vec<String> = self.counters.iter().map(|(k, v)| format!("{}:{}", jstr(k), v)).collect();
        let ops: Vec<String> = self.ops.iter().map(|(k, v)| format!("{}:{}", jstr(k), v)).collect();
        let out = std::io::stdout();
        let mut o = out.lock();
        let _ = writeln!(
            o,
            "S {{\"engine\":{},\"shard\":\"{}/{}\",\"seed\":{},\"enumerated\":{},\"cases\":{},\"nontrivial\":{},\"violations\":{},\"counters\":{{{}}},\"ops\":{{{}}},\"samples\":{},\"notes\":{},\"exemplar\":{}}}",
            jstr(self.engine),
            self.args.shard,
            self.args.shards,
            self.args.seed,
            self.index,
            self.cases,
            self.nontrivial.len(),
            self.violations,
            counters.join(","),
            ops.join(","),
            jlist(&self.samples),
            jlist(&self.notes),
            match &self.exemplar {
                Some((d, l)) => format!("{{\"case\":{},\"ledger_events\":{}}}", jstr(d), jlist(l)),
                None => "null".to_string(),
            },
        );
        let _ = o.flush();
    }
}
