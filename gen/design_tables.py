#!/usr/bin/env python3
"""Regenerate the generated tables of DESIGN.md Part II (between the BEGIN/END GENERATED markers)
from vlib/plan.py, evidence/*.json, known_findings.json and seeded/."""
import glob, json, os, sys
ROOT = os.path.dirname(os.path.dirname(os.path.abspath(__file__)))
sys.path.insert(0, ROOT)
from vlib import plan

out = []
w = out.append
w("### 10.1 Checks as registered (generated from `vlib/plan.py` and the last clean-tree evidence)\n")
w("| id | level | engine(s) | quick tier: runs (detector, bounds) | thorough adds | last quick evidence: cases / distinct non-trivial / wall |")
w("|---|---|---|---|---|---|")
for pid in sorted(plan.SPECS):
    sp = plan.SPECS[pid]
    def labels(tier):
        ls = [r.label + (f" ×{r.shards}" if r.shards > 1 else "") for r in sp["runs"](tier, 0)]
        if "custom" in sp:
            ls.append("constprobe: rustc const-eval + native twin")
        if "also_custom" in sp:
            ls.append("corpus: cargo check" if pid == "C12" else "constprobe items: " + "/".join(sp.get("also_families", ())))
        return ls
    q, t = labels("quick"), labels("thorough")
    # compress the eight layoutx runs
    def comp(ls):
        lx = [l for l in ls if l.startswith("layoutx")]
        rest = [l for l in ls if not l.startswith("layoutx")]
        if lx:
            var = sorted({l.split("/")[1] for l in lx})
            rest.append("layoutx0..7/" + "+".join(var) + " (164 layouts × every N ≤ 1024)")
        return rest
    q, t = comp(q), comp(t)
    tadd = [l for l in t if l not in q]
    ev = {}
    try:
        ev = json.load(open(os.path.join(ROOT, "evidence", pid + ".json")))
    except (OSError, ValueError):
        pass
    c = ev.get("coverage", {})
    evs = f"{c.get('evaluations', '?')} / {c.get('distinct_nontrivial', '?')} / {ev.get('wall_s', '?')} s ({ev.get('tier', '?')})"
    w(f"| {pid} | {sp['level']} | {sp.get('engine', '')} | " + "; ".join(q) + " | " + "; ".join(tadd) + f" | {evs} |")
w("")

w("### 11.1 Known findings file (generated from `known_findings.json`)\n")
w("| status | property | fix commit in /repo | what failed (first failing case) |")
w("|---|---|---|---|")
for k in json.load(open(os.path.join(ROOT, "known_findings.json")))["findings"]:
    w(f"| {k['status']} | {k['property']} | `{k.get('commit', '')}` | {k['what']} |")
w("")

w("### 12.1 Seeded changes and the check that detects each (generated from `seeded/*/meta.json` and `seeded/results.json`)\n")
res = {}
try:
    res = json.load(open(os.path.join(ROOT, "seeded", "results.json")))
except (OSError, ValueError):
    pass
w("| seeded change | breaks | what it is | needs, to manifest | own check (quick) | first signatures |")
w("|---|---|---|---|---|---|")
n = det = 0
for d in sorted(glob.glob(os.path.join(ROOT, "seeded", "C*-*"))):
    name = os.path.basename(d)
    try:
        m = json.load(open(os.path.join(d, "meta.json")))
    except (OSError, ValueError):
        continue
    r = res.get(name, {})
    own = r.get("checks", {}).get(m["breaks_property"], {})
    n += 1
    verdict = "not run yet"
    if own:
        if own.get("exit") == 1 and own.get("n_signatures", 0) > 0:
            verdict = "**detected**"
            det += 1
        elif own.get("exit") == 1:
            verdict = "exit 1 (no signature parsed)"
        elif own.get("exit") == 0 and m.get("note"):
            verdict = "not detected — by design (the property as stated still holds; see meta.json note)"
        elif own.get("exit") == 0:
            verdict = "MISSED"
        else:
            verdict = f"exit {own.get('exit')}"
    extra = ""
    for p2, c2 in r.get("checks", {}).items():
        if p2 != m["breaks_property"] and c2.get("exit") == 1:
            extra += f" (also {p2})"
    sigs = "; ".join(s.replace("|", "¦")[:70] for s in own.get("signatures", [])[:2])
    w(f"| {name} | {m['breaks_property']} | {m.get('change', 'see NOTES.md')[:160]} | {m.get('needs_to_manifest', '')[:160]} | {verdict}{extra} | {sigs} |")
w("")
w(f"Totals: {n} seeded changes, {det} detected by the quick check of the property they break.\n")

text = "\n".join(out)
p = os.path.join(ROOT, "DESIGN.md")
s = open(p).read()
# ---- benign (behaviour-preserving) refactors: every check must stay silent
try:
    ben = json.load(open(os.path.join(ROOT, "benign", "results.json")))
except (OSError, ValueError):
    ben = {}
bl = ["| refactor | checks run | silent | inconclusive | alarms |", "|---|---|---|---|---|"]
tot = [0, 0, 0, 0]
for name in sorted(ben):
    ch = ben[name].get("checks", {})
    sil = sum(1 for c in ch.values() if c.get("exit") == 0)
    inc = [k for k, c in ch.items() if c.get("exit") == 2]
    al = [k for k, c in ch.items() if c.get("exit") == 1]
    tot[0] += len(ch); tot[1] += sil; tot[2] += len(inc); tot[3] += len(al)
    bl.append(f"| {name} | {len(ch)} | {sil} | {', '.join(inc) or '—'} | {', '.join(al) or '—'} |")
bl.append(f"| **total ({len(ben)} refactors)** | {tot[0]} | {tot[1]} | {tot[2]} | {tot[3]} |")
marker = "<!-- BENIGN RESULTS -->"
endm = "<!-- END BENIGN RESULTS -->"
if marker in s:
    block = marker + "\n" + "\n".join(bl) + "\n" + endm
    if endm in s:
        s = s[:s.index(marker)] + block + s[s.index(endm) + len(endm):]
    else:
        s = s.replace(marker, block, 1)
b, e = "<!-- BEGIN GENERATED TABLES -->", "<!-- END GENERATED TABLES -->"
if b in s and e in s:
    s = s[:s.index(b) + len(b)] + "\n" + text + "\n" + s[s.index(e):]
    open(p, "w").write(s)
    print("DESIGN.md tables regenerated:", n, "seeded,", det, "detected")
else:
    print("markers not found")
