#!/usr/bin/env python3
"""Confirm sub-agent mutants: each must (1) apply to /repo HEAD, (2) keep the pinned suite green,
(3) make its demo fail, and (4) the demo must pass without it.  Confirmed ones are copied to
/verif/seeded/<prop>-m<k>/ (patch.diff, demo.rs, meta.json).  Runs in the agents' scratch worktrees."""
import glob, json, os, re, shutil, subprocess, sys

ROOT = "/verif"
HEAD = subprocess.check_output(["git", "-C", "/repo", "rev-parse", "HEAD"]).decode().strip()
ENV = dict(os.environ, CARGO_NET_OFFLINE="true", RUST_BACKTRACE="0")


def sh(cmd, cwd, timeout=1200):
    p = subprocess.run(cmd, cwd=cwd, shell=True, env=ENV, stdout=subprocess.PIPE, stderr=subprocess.STDOUT, timeout=timeout)
    return p.returncode, p.stdout.decode("utf-8", "replace")


def demo_cmd(path, k):
    txt = open(path).read()
    for l in txt.splitlines()[:40]:
        m = re.search(r"((MIRIFLAGS=(\S+|'[^']*'|\"[^\"]*\") )?cargo (\+nightly )?(miri )?test[^`\n]*)", l)
        if m:
            c = m.group(1).strip().rstrip(".")
            if "--offline" not in c:
                c = c.replace("test", "test --offline", 1)
            return c
    return f"cargo test --offline --features 'alloc internals serde zeroize const-default' --test demo{k}"


BASE = os.environ.get("MUT_BASE", "/tmp/mut")
TAG = os.environ.get("MUT_TAG", "m")
only = sys.argv[1:] 
results = {}
for wt in sorted(glob.glob(BASE + "/C*")):
    pid = os.path.basename(wt)
    if only and pid not in only:
        continue
    sh(f"git checkout -q --detach {HEAD} && git checkout -- src tests", wt)
    for diff in sorted(glob.glob(f"{wt}/deliver/mut*.diff")):
        k = re.search(r"mut(\d+)\.diff", diff).group(1)
        name = f"{pid}-{TAG}{k}"
        demo = f"{wt}/deliver/demo{k}.rs"
        ported = f"{BASE}/ported/{name}.diff"
        original = diff
        if os.path.exists(ported):
            # the sub-agent's patch was written against the pinned tree; the repaired tree moved the
            # same lines, so the identical edit was re-applied by hand on the repaired HEAD
            diff = ported
        r = {"property": pid, "patch": diff}
        results[name] = r
        if not os.path.exists(demo):
            r["status"] = "no demo"
            continue
        rc, out = sh(f"git apply --check {diff}", wt)
        if rc != 0:
            r["status"] = "patch does not apply on repaired HEAD"
            r["detail"] = out[-500:]
            continue
        sh(f"git apply {diff}", wt)
        rc1, out1 = sh("cargo test --offline 2>&1 | tail -30", wt)
        ok1 = rc1 == 0 and "FAILED" not in out1 and "error" not in out1.split("test result")[0][-200:]
        rc1b, out1b = sh("cargo test --offline 2>&1 | grep -c 'test result: ok'", wt)
        rc2, out2 = sh("cargo test --offline --features 'alloc internals serde zeroize const-default' 2>&1 | grep -E 'test result|error(\\[|:)' ", wt)
        suite_ok = ("FAILED" not in out1) and ("FAILED" not in out2) and ("error" not in out2) and out1b.strip() == "8"
        r["suite_ok_with_mutant"] = suite_ok
        cmd = demo_cmd(demo, k)
        r["demo_cmd"] = cmd
        shutil.copy(demo, f"{wt}/tests/demo{k}.rs")
        rcm, outm = sh(cmd + " 2>&1 | tail -40", wt, timeout=1800)
        rcm2, _ = sh(cmd + " >/dev/null 2>&1", wt, timeout=1800)
        r["demo_fails_with_mutant"] = rcm2 != 0
        r["demo_output_with_mutant"] = outm[-1500:]
        sh("git checkout -- src", wt)
        rcp, outp = sh(cmd + " >/dev/null 2>&1", wt, timeout=1800)
        r["demo_passes_without"] = rcp == 0
        os.remove(f"{wt}/tests/demo{k}.rs")
        good = suite_ok and r["demo_fails_with_mutant"] and r["demo_passes_without"]
        r["status"] = "confirmed" if good else "rejected"
        if good:
            d = f"{ROOT}/seeded/{name}"
            os.makedirs(d, exist_ok=True)
            shutil.copy(diff, f"{d}/patch.diff")
            shutil.copy(demo, f"{d}/demo.rs")
            notes = ""
            try:
                notes = open(f"{wt}/deliver/NOTES.md").read()
            except OSError:
                pass
            open(f"{d}/NOTES.md", "w").write(notes)
            if diff != original:
                shutil.copy(original, f"{d}/patch.original-against-pinned-tree.diff")
            meta = {"id": name, "breaks_property": pid, "ported_to_repaired_head": diff != original, "source": "independent sub-agent (saw only the property text and a scratch worktree)",
                    "repo_head_confirmed_against": HEAD,
                    "confirmed": {"pinned_suite_passes_with_patch": True, "demo_cmd": cmd, "demo_fails_with_patch": True,
                                  "demo_passes_without_patch": True},
                    "needs_to_manifest": "see NOTES.md (section for mutant %s)" % k,
                    "detected_by": "TBD"}
            json.dump(meta, open(f"{d}/meta.json", "w"), indent=1)
        print(name, r["status"], flush=True)
json.dump(results, open(BASE + "/confirm" + ("-" + "_".join(only) if only else "") + ".json", "w"), indent=1)
