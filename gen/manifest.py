#!/usr/bin/env python3
"""Regenerate MANIFEST.json from vlib/plan.py (claimed checks) and properties.jsonl."""
import json
import os
import sys

ROOT = os.path.dirname(os.path.dirname(os.path.abspath(__file__)))
sys.path.insert(0, ROOT)
from vlib import plan  # noqa: E402

props = [json.loads(l) for l in open(os.path.join(ROOT, "properties.jsonl"))]
checks = []
na = []
for p in props:
    pid = p["id"]
    if pid in plan.SPECS:
        sp = plan.SPECS[pid]
        checks.append({
            "property_id": pid,
            "quick_cmd": f"./check {pid} --tier quick",
            "thorough_cmd": f"./check {pid} --tier thorough",
            "evidence_file": f"evidence/{pid}.json",
            "replay_cmd_template": f"./check {pid} --replay {{path}}",
            "engine": sp.get("engine", ""),
            "level_claimed": {"category": sp["level"], "text": sp["level_text"], "design_ref": sp.get("design_ref", f"DESIGN.md §3 {pid}")},
            "level_note": sp["level_note"],
            "technique": sp["technique"],
        })
    else:
        na.append({"property_id": pid, "reason": plan.NOT_CLAIMED.get(pid, "check not built yet in this round; see DESIGN.md §3 for the intended monitor")})

engines = [{"name": n, "path": (f"harness/src/bin/{n}.rs" if n not in ("constprobe", "corpus") else n + "/"), "serves_properties": sorted(ps), "kind_free_text": t}
           for n, (ps, t) in plan.ENGINES.items()]
m = {
    "version": 1,
    "setup_cmd": "./setup",
    "hooks": {
        "guard": "generic_array_verif",
        "enable": "no hooks were needed: every monitored state is observable at the public boundary (crate features alloc, internals, serde, zeroize, const-default, faster-hex are switched on by the harness); the cfg name is reserved and unused",
        "baseline_off_cmd": "cd /repo && cargo test --offline",
        "source_commits": [],
        "add_only": True,
    },
    "engines": engines,
    "checks": checks,
    "not_applicable": na,
    "notes": ("Runtime monitoring + sanitizers. ./check <ID> --tier quick|thorough; exit 0 held, 1 violation (VIOLATION line + replay file), "
              "2 inconclusive (never folded into the others). VERIF_SEED / --seed seeds every random choice. VERIF_REPO overrides /repo "
              "(used only by self-tests). Genuine defects repaired in /repo by 'fix:' commits are listed in known_findings.json as fixed."),
}
json.dump(m, open(os.path.join(ROOT, "MANIFEST.json"), "w"), indent=1)
print(f"MANIFEST.json: {len(checks)} checks, {len(na)} not claimed")
