#!/usr/bin/env python3
"""One-off / on-demand audit of the plan's wiring: every flavour a Run names with --flavours must
produce cases in that run.  Runs each plan entry's arguments on the *native debug* binary (same
enumeration as the Miri / ASan / memcheck variants), shard by shard, and lists flavours that were
named but never seen.  Not part of any registered check (non-gating by design: a flavour may be
legitimately empty under a --maxn bound); it exists to catch plan typos such as a flavour that the
engine knows but the plan never selects, or the reverse."""
import json, os, subprocess, sys
ROOT = os.path.dirname(os.path.dirname(os.path.abspath(__file__)))
sys.path.insert(0, ROOT)
from vlib import driver, plan

only = set(sys.argv[1:])
bad = []
for pid, sp in sorted(plan.SPECS.items()):
    if only and pid not in only:
        continue
    for tier in ("quick", "thorough"):
        for r in sp["runs"](tier, 0):
            if "--flavours" not in r.args:
                continue
            named = r.args[r.args.index("--flavours") + 1].split(",")
            exe = driver.exe_path(r.engine, "fhex-debug" if r.variant.startswith("fhex") else "debug")
            # (u8,u16) contains a comma: re-join pieces that were split inside parentheses
            fixed, buf = [], ""
            for piece in named:
                buf = piece if not buf else buf + "," + piece
                if buf.count("(") == buf.count(")"):
                    fixed.append(buf)
                    buf = ""
            named = fixed
            seen = {f: 0 for f in named}
            cases = 0
            for sh in range(r.shards):
                argv = [exe, "--tier", tier, "--seed", "0", "--shard", f"{sh}/{r.shards}", "--trace"] + r.args
                try:
                    p = subprocess.run(argv, stdout=subprocess.DEVNULL, stderr=subprocess.PIPE, timeout=900)
                except subprocess.TimeoutExpired:
                    continue
                for line in p.stderr.decode("utf-8", "replace").splitlines():
                    if line.startswith("@ "):
                        cases += 1
                        for f in named:
                            if f in line:
                                seen[f] += 1
            missing = [f for f in named if seen[f] == 0]
            status = "ok" if not missing else "NAMED BUT UNSEEN: " + ",".join(missing)
            print(f"{pid} {tier} {r.label}: {status}   (cases traced: {cases}; per flavour: {seen})", flush=True)
            if missing:
                bad.append((pid, tier, r.label, missing))
print("summary:", bad)
