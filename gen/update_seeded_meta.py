#!/usr/bin/env python3
"""Fill seeded/<id>/meta.json: what the change is, what it needs to manifest, which check detects it (from seeded/results.json)."""
import json, os
ROOT = os.path.dirname(os.path.dirname(os.path.abspath(__file__)))
NEEDS = {
 "C01-m1": ("Box<GenericArray>::generate: `.cast()` moved after the if, so the no-allocation branch yields NonNull::<u8>::dangling() (address 1)", "boxed generate/default_boxed + zero-sized array (ZST element or N=0) + element alignment > 1"),
 "C01-m2": ("#[repr(C, packed(16))] on the even/odd storage nodes", "element alignment 32 or 64 (incl. aligned ZSTs, nested arrays of them) and N >= 1"),
 "C02-m1": ("from_slice/try_from_slice compare byte extents instead of lengths", "zero-sized element type, shared form, L != N (either direction)"),
 "C02-m2": ("From<GenericArray> for [T;N] uses ptr::read(value.as_ref()) and then drops value", "element type with Drop, conversion through the From/Into trait route (not into_array), N >= 1"),
 "C03-m1": ("nth_back: index_back.saturating_sub(n) instead of clamping to the front index", "front already advanced, then nth_back(n) with n > remaining; drop-tracked elements"),
 "C03-m2": ("try_from_iter: builder.finish() (mem::forget of the drop guard) moved before the surplus probe", "source yields more than N Drop elements with a size_hint that hides it (filter/from_fn/lying hint)"),
 "C04-m1": ("inverted_zip needs-drop guard tests U instead of B", "owned x owned zip, left element needs Drop, right element and output do not, closure panics at k < N-1"),
 "C04-m2": ("try_from_iter: finish() between the is_full check and the surplus probe", "source passes the hint pre-check, yields N Drop elements, then panics on (or answers) the N+1-th next()"),
 "C05-m1": ("GenericArrayIter::last: next_back, drop_in_place(rest), mem::forget(self) without advancing index", "last() with >= 2 live elements and a panicking destructor in the prefix"),
 "C05-m2": ("builders' Drop moved into drop_partial: position updated after the element drop", "partially built array torn down on a non-unwinding error path (short source with hidden hint) + one element's destructor panics"),
 "C06-m1": ("nth_back: saturating_sub(n) instead of min(n, len)", "front advanced, then nth_back(n) with n > remaining"),
 "C06-m2": ("nth: min(index + n, index_back) adds before clamping", "front advanced and n > usize::MAX - index (e.g. nth(usize::MAX))"),
 "C07-m1": ("try_from_iter: finish() hoisted before the surplus probe", "inline form, Drop elements, source yields >= N+1 items with a hint that does not rule N out: first N items leaked"),
 "C07-m2": ("try_boxed_from_iter trusts an exact size_hint and skips the N+1-th poll", "boxed form only, size_hint lying as exactly (N, Some(N)) while the source yields more"),
 "C08-m1": ("Clone for GenericArray: bitwise ptr::read fast path when !needs_drop::<T>()", "element type without drop glue but with a hand-written observable Clone"),
 "C08-m2": ("boxed generate: early return of a dangling Box for zero-sized arrays before the fill loop", "boxed generate/default_boxed with a zero-sized element, N >= 1, observable generator / counting Default"),
 "C09-m1": ("append/prepend/concat via const_transmute(Joined(a, b)) with a non-repr(C) struct", "rustc reorders the two fields: prepend on even N >= 2 with plain non-zero-sized niche-free elements; concat shapes like 1++2, 3++4"),
 "C09-m2": ("swap_remove override drops the bounds assert and wraps self in ManuallyDrop before slice::swap", "swap_remove with idx >= N: panic comes after ownership was given up, all N elements leak"),
 "C10-m1": ("chunks_from_slice(_mut) fast path `if len <= N { return (&[], slice) }`", "N > 0 and slice length exactly N"),
 "C10-m2": ("slice_from_chunks(_mut) derives the length from size_of::<GenericArray>() / size_of::<T>()", "zero-sized element type (division by zero), any N"),
 "C11-m1": ("owned flatten: ptr::read(&self as *const Output) without forgetting self", "owned receiver and elements that need Drop"),
 "C11-m2": ("&mut flatten builds its result from self.as_ptr() (a shared reborrow)", "&mut receiver of flatten, then a write: visible only to Miri (provenance)"),
 "C11-m3": ("&unflatten uses &self[0] as the base pointer", "(&array).unflatten() on an empty array"),
 "C12-m1": ("explicit unsafe impl Sync for GenericArrayIter bounded by T: Send", "iterator + Sync + element that is Send but not Sync (Cell, RefCell)"),
 "C12-m2": ("into_chunks_mut loses the <ArrayLength = N> projection in its where-clause", "&mut form only, caller annotates a native length U != N"),
 "C13-m1": ("PartialEq::eq short-circuits on ptr::eq(self, other)", "non-reflexive element (NaN) and both operands at the same address"),
 "C13-m2": ("Debug: compact form hand-written with write!(\"{:?}\") dropping the caller's flags", "non-alternate spec with width/precision/sign/zero-pad/x? on float or int elements"),
 "C14-m1": ("small-array path encodes into &mut buf[..max_digits]; scalar encoder accepts a 1-short destination, faster-hex does not", "feature faster-hex, native run, 16 <= N <= 1024, odd precision p < 2N"),
 "C14-m2": ("large-array path uses chunks_exact(1024) and trims only the trailing partial chunk", "N > 1024 and odd precision p with p % 2048 == 2047"),
 "C15-m1": ("try_boxed_from_iter = try_from_iter(iter).map(Box::new)", "array larger than the calling thread's stack (2 MiB on a 256 KiB thread)"),
 "C15-m2": ("try_from_vec fast path on capacity == N without checking len", "Vec with capacity exactly N and length < N, non-zero-sized elements"),
 "C16-m1": ("try_from_vec wraps the Vec's pointer with Box::from_raw instead of into_boxed_slice", "Vec with capacity > length (freed with the wrong size; leaked for N = 0)"),
 "C16-m2": ("try_boxed_from_iter fills a ManuallyDrop<Vec> in place; unwind path does not free it", "panic while the feeding iterator is pulled (boxed map/zip/from_iter), N > 0, sized elements"),
 "C17-m1": ("visit_seq probes for a trailing element only when the up-front size_hint was None", "up-front hint exactly Some(N) but N+1 / N+2 elements delivered; needs a scripted deserializer"),
 "C17-m2": ("visit_seq: builder.finish() hoisted above the surplus probe", "drop-tracked elements, format without hints, exactly N good elements followed by surplus/garbage"),
 "C18-m1": ("chunks_from_slice(_mut) guard tests size_of::<GenericArray<T,N>>() == 0 instead of N == 0", "zero-sized element type, N > 0, non-empty slice (const and run time)"),
 "C18-m2": ("from_mut_slice = &mut chunks_from_slice_mut(slice).0[0]", "N = 0 in the mutable form (const and run time)"),
 "C19-m1": ("Zeroize fast path: volatile byte-zeroing when !needs_drop::<T>()", "element whose zeroized value is not all-zero bytes (custom Zeroize, NonZero*)"),
 "C19-m2": ("inherent const_default() rebuilt by bit-doubling with `(N & (1 << bit)) == 1`", "N with a set bit strictly between its highest and lowest bits (6, 7, 10..15, ...) and T::DEFAULT not all-zero"),
 "C20-m1": ("box_arr! list arm deduces the length with `{ let _ = &$x; }` per element", "list form with side-effecting element expressions: each evaluated twice"),
 "C20-m2": ("box_arr![x; Ty] = Box::generate(|_| x)", "typenum-length boxed repeat form with a non-idempotent x (or U0: never evaluated)"),
}
# rounds 2+: one-line summaries extracted from each delivery's patch + NOTES.md
try:
    for name, e in json.load(open(os.path.join(ROOT, "seeded", "summaries.json"))).items():
        if os.path.isdir(os.path.join(ROOT, "seeded", name)):
            NEEDS.setdefault(name, (e["change"], e["needs"]))
except (OSError, ValueError):
    pass
# changes kept although the broken property's check does not (and must not) fire on them
NOT_A_VIOLATION = {
 "C07-r8m2": "Not detected, by design: the builders' Drop impls drop the initialised prefix with a per-slot loop instead of drop_in_place on the slice, so when one "
             "pulled item's DESTRUCTOR panics during a rejected collect the items after it are leaked. Nothing is released twice and nothing stale is read. C05 states "
             "that 'elements that Rust's unwinding rules abandon may leak, but nothing is ever released twice'; C07's 'drops every item it pulled exactly once' does not "
             "promise more than C05 allows once a destructor panics. An alarm would contradict C05's explicit allowance.",
 "C01-r8m2": "Filed under C01 by its author, but what it breaks is C16's clause (every block released with the size and alignment it was requested with): boxed generate "
             "deallocates with Layout::array::<T>(elements initialised so far) when the generator panics. C01 (size/alignment/offsets of the type and of views) holds. "
             "C16's quick check detects it (see also_detected_by); C01's check is silent and should be.",
 "C03-r8m2": "Filed under C03 by its author, but serde deserialisation is not among the ownership moves C03 lists; what it breaks is C17's clause (on rejected input the "
             "elements already read are dropped exactly once). C17's quick check detects it (see also_detected_by); C03's check does not drive serde.",
 "C20-r8m1": "box_arr![x; <const expr>] built on the stack: values are right whenever it returns. The clause it breaks for large lengths is C15's (box_arr! among the boxed "
             "constructors that build arrays far larger than the stack); the small-stack children of the heap engine report it under C15 (see also_detected_by).",
 "C09-r7m1": "Not detected, by design: pop_front takes its raw pointer from a shared borrow of element 0 and reads the other N-1 elements through it. Values and drop counts are "
             "unchanged natively and under Miri/Tree Borrows; only the experimental Stacked Borrows model objects (provenance narrowed to one element). Every clause of C09 holds.",
 "C11-r7m1": "Not detected, by design: the by-reference Unflatten forms are routed through the crate's own chunks_from_slice(_mut) + from_(mut_)slice. Lengths, addresses and extents "
             "are identical; the &mut form inherits the pinned tree's own Stacked-Borrows complaint about chunks_from_slice_mut (two whole-slice reborrows), which Tree Borrows "
             "accepts. Every clause of C11 holds (writes through the view do appear in the original).",
 "C15-r7m2": "Not detected, by design: try_from_boxed_slice derives its pointer with as_mut_ptr() and then mem::forget()s the box. Address, contents, drop counts and length checks "
             "are unchanged natively and under Miri/Tree Borrows; only the experimental Stacked Borrows model objects. Every clause of C15 holds (same block, no copy).",
 "C09-r6m1": "Not detected, by design: remove_unchecked reads the removed element and the tail through as_ptr() (a shared reborrow) and writes through as_mut_ptr(). Returned values, "
             "order and drop counts are unchanged natively and under Miri/Tree Borrows; only the experimental Stacked Borrows model objects, as it already does to the pinned tree's "
             "chunks_from_slice_mut. Every clause of C09 holds for the changed code; the thorough tier prints the Stacked Borrows report as advisory.",
 "C10-r5m1": "Not detected, by design: the remainder of chunks_from_slice is derived from the end of the chunk slice (as_ptr_range().end) instead of from the source slice. "
             "Counts, lengths, addresses and contents are unchanged; native runs, the const evaluator and Miri under Tree Borrows accept it. Only the experimental Stacked "
             "Borrows model objects (the remainder's tag is a child of the chunk slice's), and the pinned tree's chunks_from_slice_mut already fails that model. C10 (same "
             "memory, same order, no overlap, nothing beyond the end) holds for the changed code; the thorough tier prints the Stacked Borrows report as advisory.",
 "C09-r3m1": "Not detected, by design: (&mut a).split() derives both halves from two whole-array reborrows. Values, addresses, adjacency, disjointness and drop counts are "
             "unchanged natively and under Miri/Tree Borrows; only the experimental Stacked Borrows model objects, and the pinned tree has the same pattern in "
             "chunks_from_slice_mut. C09's by-reference clause (disjoint, adjacent, covering, no copy) holds for the changed code, so an alarm would be a false one; "
             "the thorough tier prints the Stacked Borrows report as advisory (DESIGN.md sections 2.5, 12).",
}
res = json.load(open(os.path.join(ROOT, "seeded", "results.json")))
for name, (what, needs) in NEEDS.items():
    p = os.path.join(ROOT, "seeded", name, "meta.json")
    m = json.load(open(p))
    m["change"] = what
    m["needs_to_manifest"] = needs
    r = res.get(name, {})
    own = r.get("checks", {}).get(m["breaks_property"], {})
    m["detected_by"] = {"check": f"./check {m['breaks_property']} --tier quick", "exit": own.get("exit"), "signatures": own.get("signatures", [])[:6]}
    also = {p: {"exit": c.get("exit"), "signatures": c.get("signatures", [])[:4]} for p, c in r.get("checks", {}).items() if p != m["breaks_property"]}
    if also:
        m["also_detected_by"] = also
    if name in NOT_A_VIOLATION:
        m["note"] = NOT_A_VIOLATION[name]
    m["what_i_ran"] = ["gen/confirm_mutants.py (patch applies to /repo HEAD; pinned suite passes; demo fails with / passes without the patch)",
                       "./selftest (git -C /repo apply patch.diff; ./check <ID> --tier quick with VERIF_NO_EVIDENCE=1; git -C /repo checkout -- .)"]
    json.dump(m, open(p, "w"), indent=1)
print("updated", len(NEEDS))
