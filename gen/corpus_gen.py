#!/usr/bin/env python3
"""Generate the C12 corpus: minimal programs in accept/reject pairs that differ in exactly
one length, bound or lifetime.  Output: corpus/src/bin/<name>.rs and corpus/expect.json
(name -> {expect, class, family, twin}).  Classes: Lk (length/bound: type errors),
Mv (move), Bw (borrow / lifetime)."""
import json
import os
import shutil

ROOT = os.path.dirname(os.path.dirname(os.path.abspath(__file__)))
OUT = os.path.join(ROOT, "corpus")
BIN = os.path.join(OUT, "src", "bin")

PRELUDE = """#![allow(unused, dropping_references, clippy::all)]
use generic_array::functional::*;
use generic_array::sequence::*;
use generic_array::typenum::*;
use generic_array::{arr, box_arr, ArrayLength, GenericArray, GenericArrayIter};
use std::cell::Cell;
use std::rc::Rc;
use std::sync::Arc;
fn need_send<T: Send>(_: T) {}
fn need_sync<T: Sync>(_: &T) {}
fn need_copy<T: Copy>(_: T) {}
fn need_clone<T: Clone>(_: &T) {}
struct NoClone;
"""

progs = {}  # name -> (source body, expect, class, family)


def add(name, body, expect, klass, family, twin=None, toplevel="", prop="C12"):
    assert name not in progs, name
    src = PRELUDE + toplevel + "\nfn main() {\n" + "\n".join("    " + l for l in body.strip().splitlines()) + "\n}\n"
    progs[name] = {"src": src, "expect": expect, "class": klass, "family": family, "twin": twin, "property": prop}


def pair(family, name, acc, rej, klass, toplevel=""):
    """acc: body; rej: body or list of bodies (each a separate reject program sharing the accept twin)"""
    add(f"{name}_acc", acc, "accept", klass, family, toplevel=toplevel)
    rejs = rej if isinstance(rej, list) else [rej]
    for i, r in enumerate(rejs):
        suffix = "" if len(rejs) == 1 else str(i + 1)
        add(f"{name}_rej{suffix}", r, "reject", klass, family, twin=f"{name}_acc", toplevel=toplevel)


# ------------------------------------------------------------------ zip / compare across lengths
pair("zip-len", "zip_own_own", "let _ = arr![1, 2, 3].zip(arr![1, 2, 3], |a, b| a + b);", "let _ = arr![1, 2, 3].zip(arr![1, 2, 3, 4], |a, b| a + b);", "Lk")
pair("zip-len", "zip_ref_ref", "let (a, b) = (arr![1, 2, 3], arr![4, 5, 6]); let _ = (&a).zip(&b, |a, b| a + b);", "let (a, b) = (arr![1, 2, 3], arr![4, 5, 6, 7]); let _ = (&a).zip(&b, |a, b| a + b);", "Lk")
pair("zip-len", "zip_own_ref", "let (a, b) = (arr![1, 2, 3], arr![4, 5, 6]); let _ = a.zip(&b, |a, b| a + b);", "let (a, b) = (arr![1, 2, 3], arr![4, 5, 6, 7]); let _ = a.zip(&b, |a, b| a + b);", "Lk")
pair("zip-len", "zip_mut_own", "let (mut a, b) = (arr![1, 2, 3], arr![4, 5, 6]); let _ = (&mut a).zip(b, |a, b| *a + b);", "let (mut a, b) = (arr![1, 2, 3], arr![4, 5]); let _ = (&mut a).zip(b, |a, b| *a + b);", "Lk")
pair("zip-len", "zip_box_box", "let _ = box_arr![1, 2, 3].zip(box_arr![1, 2, 3], |a, b| a + b);", "let _ = box_arr![1, 2, 3].zip(box_arr![1, 2, 3, 4], |a, b| a + b);", "Lk")
pair("zip-len", "zip_stack_box_mix", "let _ = box_arr![1, 2, 3].zip(box_arr![4, 5, 6], |a, b| a + b);", "let _ = arr![1, 2, 3].zip(box_arr![4, 5, 6], |a, b| a + b);", "Lk")
pair("eq-len", "eq", "let _ = arr![1, 2, 3] == arr![1, 2, 3];", "let _ = arr![1, 2, 3] == arr![1, 2, 3, 4];", "Lk")
pair("eq-len", "ne", "let _ = arr![1, 2, 3] != arr![3, 2, 1];", "let _ = arr![1, 2, 3] != arr![3, 2];", "Lk")
pair("ord-len", "cmp", "let _ = arr![1, 2, 3].cmp(&arr![1, 2, 3]);", "let _ = arr![1, 2, 3].cmp(&arr![1, 2, 3, 4]);", "Lk")
pair("ord-len", "partial_cmp", "let _ = arr![1.0, 2.0].partial_cmp(&arr![1.0, 2.0]);", "let _ = arr![1.0, 2.0].partial_cmp(&arr![1.0, 2.0, 3.0]);", "Lk")
pair("ord-len", "lt", "let _ = arr![1, 2] < arr![1, 3];", "let _ = arr![1, 2] < arr![1, 3, 4];", "Lk")

# ------------------------------------------------------------------ split past the end
pair("split-past-end", "split_owned", "let (_a, _b): (GenericArray<i32, U2>, GenericArray<i32, U2>) = arr![1, 2, 3, 4].split();",
     ["let (_a, _b): (GenericArray<i32, U5>, _) = arr![1, 2, 3, 4].split();", "let (_a, _b): (GenericArray<i32, U2>, GenericArray<i32, U3>) = arr![1, 2, 3, 4].split();"], "Lk")
pair("split-past-end", "split_ref", "let a = arr![1, 2, 3, 4]; let (_h, _t): (&GenericArray<i32, U4>, &GenericArray<i32, U0>) = (&a).split();",
     "let a = arr![1, 2, 3, 4]; let (_h, _t): (&GenericArray<i32, U5>, _) = (&a).split();", "Lk")
pair("split-past-end", "split_mut", "let mut a = arr![1, 2, 3, 4]; let (_h, _t): (&mut GenericArray<i32, U1>, &mut GenericArray<i32, U3>) = (&mut a).split();",
     "let mut a = arr![1, 2, 3, 4]; let (_h, _t): (&mut GenericArray<i32, U1>, &mut GenericArray<i32, U4>) = (&mut a).split();", "Lk")

# ------------------------------------------------------------------ pop / remove on empty
for op, call in (("pop_back", "a.pop_back()"), ("pop_front", "a.pop_front()"), ("remove", "a.remove(0)"), ("swap_remove", "a.swap_remove(0)")):
    pair("pop-empty", f"{op}_empty", f"let a: GenericArray<i32, U1> = arr![1]; let _ = {call};", f"let a: GenericArray<i32, U0> = arr![]; let _ = {call};", "Lk")

# ------------------------------------------------------------------ inferred result lengths
pair("result-length", "append_len", "let _: GenericArray<i32, U4> = arr![1, 2, 3].append(4);",
     ["let _: GenericArray<i32, U5> = arr![1, 2, 3].append(4);", "let _: GenericArray<i32, U3> = arr![1, 2, 3].append(4);"], "Lk")
pair("result-length", "prepend_len", "let _: GenericArray<i32, U4> = arr![1, 2, 3].prepend(0);",
     ["let _: GenericArray<i32, U5> = arr![1, 2, 3].prepend(0);", "let _: GenericArray<i32, U3> = arr![1, 2, 3].prepend(0);"], "Lk")
pair("result-length", "pop_back_len", "let (_r, _x): (GenericArray<i32, U2>, i32) = arr![1, 2, 3].pop_back();",
     ["let (_r, _x): (GenericArray<i32, U3>, i32) = arr![1, 2, 3].pop_back();", "let (_r, _x): (GenericArray<i32, U1>, i32) = arr![1, 2, 3].pop_back();"], "Lk")
pair("result-length", "pop_front_len", "let (_x, _r): (i32, GenericArray<i32, U2>) = arr![1, 2, 3].pop_front();",
     ["let (_x, _r): (i32, GenericArray<i32, U3>) = arr![1, 2, 3].pop_front();", "let (_x, _r): (i32, GenericArray<i32, U1>) = arr![1, 2, 3].pop_front();"], "Lk")
pair("result-length", "concat_len", "let _: GenericArray<i32, U5> = arr![1, 2].concat(arr![3, 4, 5]);",
     ["let _: GenericArray<i32, U4> = arr![1, 2].concat(arr![3, 4, 5]);", "let _: GenericArray<i32, U6> = arr![1, 2].concat(arr![3, 4, 5]);"], "Lk")
pair("result-length", "remove_len", "let (_x, _r): (i32, GenericArray<i32, U2>) = arr![1, 2, 3].remove(0);",
     ["let (_x, _r): (i32, GenericArray<i32, U3>) = arr![1, 2, 3].remove(0);", "let (_x, _r): (i32, GenericArray<i32, U1>) = arr![1, 2, 3].remove(0);"], "Lk")
pair("result-length", "swap_remove_len", "let (_x, _r): (i32, GenericArray<i32, U2>) = arr![1, 2, 3].swap_remove(0);",
     "let (_x, _r): (i32, GenericArray<i32, U3>) = arr![1, 2, 3].swap_remove(0);", "Lk")
pair("result-length", "flatten_len", "let _: GenericArray<i32, U6> = arr![arr![1, 2], arr![3, 4], arr![5, 6]].flatten();",
     ["let _: GenericArray<i32, U5> = arr![arr![1, 2], arr![3, 4], arr![5, 6]].flatten();", "let _: GenericArray<i32, U7> = arr![arr![1, 2], arr![3, 4], arr![5, 6]].flatten();"], "Lk")
pair("result-length", "flatten_ref_len", "let a = arr![arr![1, 2], arr![3, 4]]; let _: &GenericArray<i32, U4> = (&a).flatten();",
     "let a = arr![arr![1, 2], arr![3, 4]]; let _: &GenericArray<i32, U5> = (&a).flatten();", "Lk")
pair("result-length", "unflatten_len", "let _: GenericArray<GenericArray<i32, U2>, U3> = arr![1, 2, 3, 4, 5, 6].unflatten();",
     ["let _: GenericArray<GenericArray<i32, U2>, U4> = arr![1, 2, 3, 4, 5, 6].unflatten();", "let _: GenericArray<GenericArray<i32, U2>, U2> = arr![1, 2, 3, 4, 5, 6].unflatten();"], "Lk")
pair("result-length", "unflatten_mut_len", "let mut a = arr![1, 2, 3, 4, 5, 6]; let _: &mut GenericArray<GenericArray<i32, U3>, U2> = (&mut a).unflatten();",
     "let mut a = arr![1, 2, 3, 4, 5, 6]; let _: &mut GenericArray<GenericArray<i32, U3>, U3> = (&mut a).unflatten();", "Lk")
pair("result-length", "arr_macro_len", "let _: GenericArray<i32, U3> = arr![1, 2, 3];", ["let _: GenericArray<i32, U4> = arr![1, 2, 3];", "let _: GenericArray<i32, U2> = arr![1, 2, 3];"], "Lk")
pair("result-length", "arr_repeat_len", "let _: GenericArray<i32, U5> = arr![7; 5];", "let _: GenericArray<i32, U6> = arr![7; 5];", "Lk")
pair("result-length", "box_arr_len", "let _: Box<GenericArray<i32, U3>> = box_arr![1, 2, 3];", "let _: Box<GenericArray<i32, U4>> = box_arr![1, 2, 3];", "Lk")
pair("result-length", "map_len", "let _: GenericArray<i64, U3> = arr![1, 2, 3].map(|x| x as i64);", "let _: GenericArray<i64, U4> = arr![1, 2, 3].map(|x| x as i64);", "Lk")
pair("result-length", "generate_collect_len", "let _: GenericArray<i32, U3> = arr![1, 2, 3].into_iter().collect();", "let _: [i32; 3] = arr![1, 2, 3].into_iter().collect::<GenericArray<i32, U4>>().into();", "Lk")

# ------------------------------------------------------------------ native array conversions
pair("array-conv", "into_array", "let _: [i32; 3] = arr![1, 2, 3].into_array();", ["let _: [i32; 4] = arr![1, 2, 3].into_array();", "let _: [i32; 2] = arr![1, 2, 3].into_array();"], "Lk")
pair("array-conv", "from_array", "let _: GenericArray<i32, U3> = GenericArray::from_array([1, 2, 3]);", "let _: GenericArray<i32, U4> = GenericArray::from_array([1, 2, 3]);", "Lk")
pair("array-conv", "from_native", "let _: GenericArray<i32, U3> = GenericArray::from([1, 2, 3]);", "let _: GenericArray<i32, U4> = GenericArray::from([1, 2, 3]);", "Lk")
pair("array-conv", "into_native", "let _: [i32; 3] = arr![1, 2, 3].into();", "let _: [i32; 4] = arr![1, 2, 3].into();", "Lk")
pair("array-conv", "from_ref_native", "let n = [1, 2, 3]; let _: &GenericArray<i32, U3> = (&n).into();", "let n = [1, 2, 3]; let _: &GenericArray<i32, U4> = (&n).into();", "Lk")
pair("array-conv", "from_mut_native", "let mut n = [1, 2, 3]; let _: &mut GenericArray<i32, U3> = (&mut n).into();", "let mut n = [1, 2, 3]; let _: &mut GenericArray<i32, U2> = (&mut n).into();", "Lk")
pair("array-conv", "as_ref_native", "let a = arr![1, 2, 3]; let _: &[i32; 3] = a.as_ref();", "let a = arr![1, 2, 3]; let _: &[i32; 4] = a.as_ref();", "Lk")
pair("array-conv", "as_mut_native", "let mut a = arr![1, 2, 3]; let _: &mut [i32; 3] = a.as_mut();", "let mut a = arr![1, 2, 3]; let _: &mut [i32; 2] = a.as_mut();", "Lk")

# ------------------------------------------------------------------ tuples 1..=12
for n in range(1, 13):
    tup = "(" + "".join(f"{i}i32, " for i in range(n)) + ")"
    tty = "(" + "".join("i32, " for _ in range(n)) + ")"
    lit = ", ".join(str(i) for i in range(n))
    pair("tuple-conv", f"tuple_from_{n}", f"let _: GenericArray<i32, U{n}> = {tup}.into();",
         [f"let _: GenericArray<i32, U{n + 1}> = {tup}.into();", f"let _: GenericArray<i32, U{n - 1}> = {tup}.into();"], "Lk")
    pair("tuple-conv", f"tuple_into_{n}", f"let a: GenericArray<i32, U{n}> = arr![{lit}]; let _: {tty} = a.into();",
         f"let a: GenericArray<i32, U{n + 1}> = arr![{lit}, 99]; let _: {tty} = a.into();", "Lk")

# ------------------------------------------------------------------ chunk reinterpretation
pair("chunks-conv", "from_chunks", "let c: &[[u8; 3]] = &[[1, 2, 3]]; let _: &[GenericArray<u8, U3>] = GenericArray::from_chunks(c);",
     "let c: &[[u8; 3]] = &[[1, 2, 3]]; let _: &[GenericArray<u8, U4>] = GenericArray::from_chunks(c);", "Lk")
pair("chunks-conv", "from_chunks_mut", "let c: &mut [[u8; 3]] = &mut [[1, 2, 3]]; let _: &mut [GenericArray<u8, U3>] = GenericArray::from_chunks_mut(c);",
     "let c: &mut [[u8; 3]] = &mut [[1, 2, 3]]; let _: &mut [GenericArray<u8, U2>] = GenericArray::from_chunks_mut(c);", "Lk")
pair("chunks-conv", "into_chunks", "let g = [arr![1u8, 2, 3]]; let _: &[[u8; 3]] = GenericArray::into_chunks(&g);",
     "let g = [arr![1u8, 2, 3]]; let _: &[[u8; 4]] = GenericArray::into_chunks(&g);", "Lk")
pair("chunks-conv", "into_chunks_mut", "let mut g = [arr![1u8, 2, 3]]; let _: &mut [[u8; 3]] = GenericArray::into_chunks_mut(&mut g);",
     ["let mut g = [arr![1u8, 2, 3]]; let _: &mut [[u8; 4]] = GenericArray::into_chunks_mut(&mut g);", "let mut g = [arr![1u8, 2, 3]]; let _: &mut [[u8; 2]] = GenericArray::into_chunks_mut(&mut g);"], "Lk")

# ------------------------------------------------------------------ Send / Sync / Copy / Clone
pair("send", "send_array", "need_send(arr![Arc::new(1)]);", "need_send(arr![Rc::new(1)]);", "Lk")
pair("send", "send_iter", "need_send(arr![Arc::new(1)].into_iter());", "need_send(arr![Rc::new(1)].into_iter());", "Lk")
pair("send", "send_box", "need_send(box_arr![Arc::new(1), Arc::new(2)]);", "need_send(box_arr![Rc::new(1), Rc::new(2)]);", "Lk")
pair("sync", "sync_array", "need_sync(&arr![1u8, 2]);", "need_sync(&arr![Cell::new(1u8), Cell::new(2)]);", "Lk")
pair("sync", "sync_iter", "need_sync(&arr![1u8, 2].into_iter());", ["need_sync(&arr![Cell::new(1u8), Cell::new(2)].into_iter());", "need_sync(&arr![Rc::new(1u8)].into_iter());"], "Lk")
pair("sync", "sync_array_rc", "need_sync(&arr![Arc::new(1u8)]);", "need_sync(&arr![Rc::new(1u8)]);", "Lk")
pair("send", "send_thread", "let a = arr![1, 2, 3]; std::thread::spawn(move || drop(a)).join().unwrap();", "let a = arr![Rc::new(1)]; std::thread::spawn(move || drop(a)).join().unwrap();", "Lk")
pair("copy", "copy_bound", "need_copy(arr![1, 2, 3]);", ["need_copy(arr![String::new()]);", "need_copy(arr![1, 2, 3].into_iter());"], "Lk")
pair("copy", "use_after_move", "let a = arr![1, 2]; let b = a; let _ = a.len();", "let a = arr![String::new(), String::new()]; let b = a; let _ = a.len();", "Mv")
pair("copy", "iter_use_after_move", "let it = arr![1, 2].into_iter(); let j = it.clone(); let _ = it.len();", "let it = arr![1, 2].into_iter(); let j = it; let _ = it.len();", "Mv")
pair("clone", "clone_bound", "need_clone(&arr![String::new()]);", ["need_clone(&arr![NoClone]);", "need_clone(&arr![NoClone].into_iter());"], "Lk")
pair("clone", "clone_call", "let a = arr![String::new()]; let _b = a.clone();", "let a = arr![NoClone]; let _b: GenericArray<NoClone, U1> = a.clone();", "Lk")
pair("clone", "iter_clone_call", "let it = arr![1, 2].into_iter(); let _j = it.clone();", "let it = arr![NoClone, NoClone].into_iter(); let _j: GenericArrayIter<NoClone, U2> = it.clone();", "Lk")

# ------------------------------------------------------------------ references must not outlive their source
# (decl of the source inside the inner block, expression yielding the reference `r`)
outlive = [
    ("as_slice", "let a = arr![1, 2, 3];", "a.as_slice()", "&[i32]"),
    ("deref", "let a = arr![1, 2, 3];", "&a[..]", "&[i32]"),
    ("as_ref_slice", "let a = arr![1, 2, 3];", "AsRef::<[i32]>::as_ref(&a)", "&[i32]"),
    ("borrow_slice", "let a = arr![1, 2, 3];", "std::borrow::Borrow::<[i32]>::borrow(&a)", "&[i32]"),
    ("as_ref_native", "let a = arr![1, 2, 3];", "AsRef::<[i32; 3]>::as_ref(&a)", "&[i32; 3]"),
    ("iter_ref", "let a = arr![1, 2, 3];", "(&a).into_iter().next().unwrap()", "&i32"),
    ("as_mut_slice", "let mut a = arr![1, 2, 3];", "a.as_mut_slice()", "&mut [i32]"),
    ("as_mut_native", "let mut a = arr![1, 2, 3];", "AsMut::<[i32; 3]>::as_mut(&mut a)", "&mut [i32; 3]"),
    ("from_slice", "let v = vec![1, 2, 3];", "GenericArray::<i32, U3>::from_slice(&v)", "&GenericArray<i32, U3>"),
    ("try_from_slice", "let v = vec![1, 2, 3];", "GenericArray::<i32, U3>::try_from_slice(&v).unwrap()", "&GenericArray<i32, U3>"),
    ("tryfrom_slice", "let v = vec![1, 2, 3];", "<&GenericArray<i32, U3>>::try_from(&v[..]).unwrap()", "&GenericArray<i32, U3>"),
    ("from_mut_slice", "let mut v = vec![1, 2, 3];", "GenericArray::<i32, U3>::from_mut_slice(&mut v)", "&mut GenericArray<i32, U3>"),
    ("try_from_mut_slice", "let mut v = vec![1, 2, 3];", "GenericArray::<i32, U3>::try_from_mut_slice(&mut v).unwrap()", "&mut GenericArray<i32, U3>"),
    ("tryfrom_mut_slice", "let mut v = vec![1, 2, 3];", "<&mut GenericArray<i32, U3>>::try_from(&mut v[..]).unwrap()", "&mut GenericArray<i32, U3>"),
    ("chunks_head", "let v = vec![1, 2, 3, 4, 5];", "GenericArray::<i32, U2>::chunks_from_slice(&v).0", "&[GenericArray<i32, U2>]"),
    ("chunks_rem", "let v = vec![1, 2, 3, 4, 5];", "GenericArray::<i32, U2>::chunks_from_slice(&v).1", "&[i32]"),
    ("chunks_mut_head", "let mut v = vec![1, 2, 3, 4, 5];", "GenericArray::<i32, U2>::chunks_from_slice_mut(&mut v).0", "&mut [GenericArray<i32, U2>]"),
    ("chunks_mut_rem", "let mut v = vec![1, 2, 3, 4, 5];", "GenericArray::<i32, U2>::chunks_from_slice_mut(&mut v).1", "&mut [i32]"),
    ("slice_from_chunks", "let g = vec![arr![1, 2], arr![3, 4]];", "GenericArray::<i32, U2>::slice_from_chunks(&g)", "&[i32]"),
    ("slice_from_chunks_mut", "let mut g = vec![arr![1, 2], arr![3, 4]];", "GenericArray::<i32, U2>::slice_from_chunks_mut(&mut g)", "&mut [i32]"),
    ("from_chunks", "let c = vec![[1, 2], [3, 4]];", "GenericArray::<i32, U2>::from_chunks(&c)", "&[GenericArray<i32, U2>]"),
    ("from_chunks_mut", "let mut c = vec![[1, 2], [3, 4]];", "GenericArray::<i32, U2>::from_chunks_mut(&mut c)", "&mut [GenericArray<i32, U2>]"),
    ("into_chunks", "let g = vec![arr![1, 2], arr![3, 4]];", "GenericArray::<i32, U2>::into_chunks(&g)", "&[[i32; 2]]"),
    ("into_chunks_mut", "let mut g = vec![arr![1, 2], arr![3, 4]];", "GenericArray::<i32, U2>::into_chunks_mut(&mut g)", "&mut [[i32; 2]]"),
    ("split_ref_head", "let a = arr![1, 2, 3];", "Split::<i32, U1>::split(&a).0", "&GenericArray<i32, U1>"),
    ("split_ref_tail", "let a = arr![1, 2, 3];", "Split::<i32, U1>::split(&a).1", "&GenericArray<i32, U2>"),
    ("split_mut_head", "let mut a = arr![1, 2, 3];", "Split::<i32, U1>::split(&mut a).0", "&mut GenericArray<i32, U1>"),
    ("split_mut_tail", "let mut a = arr![1, 2, 3];", "Split::<i32, U1>::split(&mut a).1", "&mut GenericArray<i32, U2>"),
    ("flatten_ref", "let a = arr![arr![1, 2], arr![3, 4]];", "(&a).flatten()", "&GenericArray<i32, U4>"),
    ("flatten_mut", "let mut a = arr![arr![1, 2], arr![3, 4]];", "(&mut a).flatten()", "&mut GenericArray<i32, U4>"),
    ("unflatten_ref", "let a = arr![1, 2, 3, 4];", "Unflatten::<i32, U4, U2>::unflatten(&a)", "&GenericArray<GenericArray<i32, U2>, U2>"),
    ("unflatten_mut", "let mut a = arr![1, 2, 3, 4];", "Unflatten::<i32, U4, U2>::unflatten(&mut a)", "&mut GenericArray<GenericArray<i32, U2>, U2>"),
    ("from_ref_native", "let n = [1, 2, 3];", "<&GenericArray<i32, U3>>::from(&n)", "&GenericArray<i32, U3>"),
    ("from_mut_native", "let mut n = [1, 2, 3];", "<&mut GenericArray<i32, U3>>::from(&mut n)", "&mut GenericArray<i32, U3>"),
    ("iter_as_slice", "let it = arr![1, 2, 3].into_iter();", "it.as_slice()", "&[i32]"),
    ("iter_as_mut_slice", "let mut it = arr![1, 2, 3].into_iter();", "it.as_mut_slice()", "&mut [i32]"),
    ("box_deref", "let b = box_arr![1, 2, 3];", "b.as_slice()", "&[i32]"),
]
for name, decl, expr, ty in outlive:
    acc = f"{{ {decl} let r: {ty} = {expr}; println!(\"{{:?}}\", r); }}"
    rej = f"let r: {ty}; {{ {decl} r = {expr}; }} println!(\"{{:?}}\", r);"
    pair("outlive", f"outlive_{name}", acc, rej, "Bw")

# returning a reference to a local from a function
pair("outlive", "outlive_return_local", "fn f(a: &GenericArray<i32, U3>) -> &[i32] { a.as_slice() } let a = arr![1, 2, 3]; println!(\"{:?}\", f(&a));",
     "fn f() -> &'static [i32] { let a = arr![1, 2, 3]; a.as_slice() } println!(\"{:?}\", f());", "Bw")
pair("outlive", "outlive_lifetime_widen", "fn f<'a>(v: &'a [i32]) -> &'a GenericArray<i32, U3> { GenericArray::from_slice(v) } let v = vec![1, 2, 3]; println!(\"{:?}\", f(&v));",
     "fn f<'a>(v: &'a [i32]) -> &'static GenericArray<i32, U3> { GenericArray::from_slice(v) } let v = vec![1, 2, 3]; println!(\"{:?}\", f(&v));", "Bw")
pair("outlive", "outlive_lifetime_widen_chunks", "fn f<'a>(v: &'a [i32]) -> &'a [GenericArray<i32, U2>] { GenericArray::chunks_from_slice(v).0 } let v = vec![1, 2, 3]; println!(\"{:?}\", f(&v));",
     "fn f<'a>(v: &'a [i32]) -> &'static [GenericArray<i32, U2>] { GenericArray::chunks_from_slice(v).0 } let v = vec![1, 2, 3]; println!(\"{:?}\", f(&v));", "Bw")
pair("outlive", "outlive_lifetime_widen_flatten", "fn f<'a>(v: &'a GenericArray<GenericArray<i32, U2>, U2>) -> &'a GenericArray<i32, U4> { v.flatten() } let a = arr![arr![1, 2], arr![3, 4]]; println!(\"{:?}\", f(&a));",
     "fn f<'a>(v: &'a GenericArray<GenericArray<i32, U2>, U2>) -> &'static GenericArray<i32, U4> { v.flatten() } let a = arr![arr![1, 2], arr![3, 4]]; println!(\"{:?}\", f(&a));", "Bw")
pair("outlive", "outlive_lifetime_widen_split", "fn f<'a>(v: &'a GenericArray<i32, U3>) -> &'a GenericArray<i32, U2> { Split::<i32, U1>::split(v).1 } let a = arr![1, 2, 3]; println!(\"{:?}\", f(&a));",
     "fn f<'a>(v: &'a GenericArray<i32, U3>) -> &'static GenericArray<i32, U2> { Split::<i32, U1>::split(v).1 } let a = arr![1, 2, 3]; println!(\"{:?}\", f(&a));", "Bw")
pair("outlive", "outlive_lifetime_widen_native", "fn f<'a>(v: &'a [i32; 3]) -> &'a GenericArray<i32, U3> { v.into() } let n = [1, 2, 3]; println!(\"{:?}\", f(&n));",
     "fn f<'a>(v: &'a [i32; 3]) -> &'static GenericArray<i32, U3> { v.into() } let n = [1, 2, 3]; println!(\"{:?}\", f(&n));", "Bw")
pair("outlive", "outlive_lifetime_widen_from_chunks", "fn f<'a>(v: &'a [[i32; 2]]) -> &'a [GenericArray<i32, U2>] { GenericArray::from_chunks(v) } let n = [[1, 2]]; println!(\"{:?}\", f(&n));",
     "fn f<'a>(v: &'a [[i32; 2]]) -> &'static [GenericArray<i32, U2>] { GenericArray::from_chunks(v) } let n = [[1, 2]]; println!(\"{:?}\", f(&n));", "Bw")
pair("outlive", "outlive_lifetime_widen_as_ref", "fn f<'a>(v: &'a GenericArray<i32, U3>) -> &'a [i32; 3] { v.as_ref() } let a = arr![1, 2, 3]; println!(\"{:?}\", f(&a));",
     "fn f<'a>(v: &'a GenericArray<i32, U3>) -> &'static [i32; 3] { v.as_ref() } let a = arr![1, 2, 3]; println!(\"{:?}\", f(&a));", "Bw")
# the two doctest programs of arr.rs: contents must not get a longer lifetime
pair("arr-lifetime", "arr_contents_lifetime", "fn f<'a, A>(a: &'a A) -> &'a A { arr![a][0] } let x = 5; println!(\"{}\", f(&x));",
     "fn f<'a, A>(a: &'a A) -> &'static A { arr![a as &A][0] } let x = 5; println!(\"{}\", f(&x));", "Bw")
pair("arr-lifetime", "arr_repeat_contents_lifetime", "fn f<'a, A>(a: &'a A) -> &'a A { arr![a; U2][0] } let x = 5; println!(\"{}\", f(&x));",
     "fn f<'a, A>(a: &'a A) -> &'static A { arr![a; U2][0] } let x = 5; println!(\"{}\", f(&x));", "Bw")
pair("arr-lifetime", "box_arr_contents_lifetime", "fn f<'a, A>(a: &'a A) -> &'a A { box_arr![a, a][0] } let x = 5; println!(\"{}\", f(&x));",
     "fn f<'a, A>(a: &'a A) -> &'static A { box_arr![a, a][0] } let x = 5; println!(\"{}\", f(&x));", "Bw")

# ------------------------------------------------------------------ mutable views must not alias
alias = [
    ("as_mut_slice", "let mut a = arr![1, 2, 3];", "a.as_mut_slice()", "a.as_mut_slice()"),
    ("deref_mut", "let mut a = arr![1, 2, 3];", "&mut a[..]", "&mut a[..]"),
    ("as_mut_native", "let mut a = arr![1, 2, 3];", "AsMut::<[i32; 3]>::as_mut(&mut a)", "AsMut::<[i32; 3]>::as_mut(&mut a)"),
    ("as_mut_generic", "let mut a = arr![1, 2, 3];", "AsMut::<[i32]>::as_mut(&mut a)", "a.as_mut_slice()"),
    ("from_mut_slice", "let mut a = vec![1, 2, 3];", "GenericArray::<i32, U3>::from_mut_slice(&mut a)", "GenericArray::<i32, U3>::from_mut_slice(&mut a)"),
    ("try_from_mut_slice", "let mut a = vec![1, 2, 3];", "GenericArray::<i32, U3>::try_from_mut_slice(&mut a).unwrap()", "&mut a[..]"),
    ("tryfrom_mut", "let mut a = vec![1, 2, 3];", "<&mut GenericArray<i32, U3>>::try_from(&mut a[..]).unwrap()", "&mut a[..]"),
    ("chunks_mut", "let mut a = vec![1, 2, 3, 4, 5];", "GenericArray::<i32, U2>::chunks_from_slice_mut(&mut a).0", "GenericArray::<i32, U2>::chunks_from_slice_mut(&mut a).1"),
    ("slice_from_chunks_mut", "let mut a = vec![arr![1, 2], arr![3, 4]];", "GenericArray::<i32, U2>::slice_from_chunks_mut(&mut a)", "&mut a[..]"),
    ("from_chunks_mut", "let mut a = vec![[1, 2], [3, 4]];", "GenericArray::<i32, U2>::from_chunks_mut(&mut a)", "&mut a[..]"),
    ("into_chunks_mut", "let mut a = vec![arr![1, 2], arr![3, 4]];", "GenericArray::<i32, U2>::into_chunks_mut::<2>(&mut a)", "&mut a[..]"),
    ("split_mut", "let mut a = arr![1, 2, 3];", "Split::<i32, U1>::split(&mut a).0", "Split::<i32, U1>::split(&mut a).1"),
    ("flatten_mut", "let mut a = arr![arr![1, 2], arr![3, 4]];", "(&mut a).flatten()", "(&mut a).flatten()"),
    ("unflatten_mut", "let mut a = arr![1, 2, 3, 4];", "Unflatten::<i32, U4, U2>::unflatten(&mut a)", "a.as_mut_slice()"),
    ("from_mut_native", "let mut a = [1, 2, 3];", "<&mut GenericArray<i32, U3>>::from(&mut a)", "&mut a[..]"),
    ("iter_as_mut_slice", "let mut a = arr![1, 2, 3].into_iter();", "a.as_mut_slice()", "a.as_mut_slice()"),
    ("iter_mut", "let mut a = arr![1, 2, 3];", "(&mut a).into_iter()", "a.as_mut_slice()"),
]
for name, decl, e1, e2 in alias:
    acc = f"{decl} {{ let r = {e1}; println!(\"{{:?}}\", r); }} let s = {e2}; println!(\"{{:?}}\", s);"
    rej = f"{decl} let r = {e1}; let s = {e2}; println!(\"{{:?}}\", r); println!(\"{{:?}}\", s);"
    pair("alias-mut", f"alias_{name}", acc, rej, "Bw")
# a shared view while a mutable one is live
for name, decl, e1, e2 in [
    ("shared_vs_mut", "let mut a = arr![1, 2, 3];", "a.as_mut_slice()", "a.as_slice()"),
    ("shared_vs_split_mut", "let mut a = arr![1, 2, 3];", "Split::<i32, U1>::split(&mut a).1", "a.as_slice()"),
    ("shared_vs_flatten_mut", "let mut a = arr![arr![1, 2], arr![3, 4]];", "(&mut a).flatten()", "a.len()"),
    ("move_while_borrowed", "let a = arr![String::new()];", "a.as_slice()", "{ let b = a; b.len() }"),
]:
    acc = f"{decl} {{ let r = {e1}; println!(\"{{:?}}\", r); }} let s = {e2}; println!(\"{{:?}}\", s);"
    rej = f"{decl} let r = {e1}; let s = {e2}; println!(\"{{:?}}\", r); println!(\"{{:?}}\", s);"
    pair("alias-mut", f"alias_{name}", acc, rej, "Bw")

# ------------------------------------------------------------------ generic lengths: the documented bounds suffice
GEN_TOP = """use core::ops::{Add, Div, Mul, Sub};
"""
generic = [
    ("concat", "fn join<T, N, M>(a: GenericArray<T, N>, b: GenericArray<T, M>) -> GenericArray<T, Sum<N, M>> where N: ArrayLength + Add<M>, M: ArrayLength, Sum<N, M>: ArrayLength { a.concat(b) }",
     "let _: GenericArray<i32, U5> = join(arr![1, 2], arr![3, 4, 5]);", "let _: GenericArray<i32, U4> = join(arr![1, 2], arr![3, 4, 5]);"),
    ("split", "fn cut<T, N, K>(a: GenericArray<T, N>) -> (GenericArray<T, K>, GenericArray<T, Diff<N, K>>) where N: ArrayLength + Sub<K>, K: ArrayLength, Diff<N, K>: ArrayLength { a.split() }",
     "let (_h, _t): (GenericArray<i32, U1>, GenericArray<i32, U2>) = cut(arr![1, 2, 3]);", "let (_h, _t): (GenericArray<i32, U1>, GenericArray<i32, U3>) = cut(arr![1, 2, 3]);"),
    ("split_ref", "fn cut<'a, T, N, K>(a: &'a GenericArray<T, N>) -> (&'a GenericArray<T, K>, &'a GenericArray<T, Diff<N, K>>) where N: ArrayLength + Sub<K>, K: ArrayLength, Diff<N, K>: ArrayLength { a.split() }",
     "let a = arr![1, 2, 3]; let (_h, _t): (&GenericArray<i32, U2>, &GenericArray<i32, U1>) = cut(&a);", "let a = arr![1, 2, 3]; let (_h, _t): (&GenericArray<i32, U2>, &GenericArray<i32, U2>) = cut(&a);"),
    ("append", "fn push<T, N>(a: GenericArray<T, N>, x: T) -> GenericArray<T, Add1<N>> where N: ArrayLength + Add<B1>, Add1<N>: ArrayLength + Sub<B1, Output = N>, Sub1<Add1<N>>: ArrayLength { a.append(x) }",
     "let _: GenericArray<i32, U4> = push(arr![1, 2, 3], 4);", "let _: GenericArray<i32, U3> = push(arr![1, 2, 3], 4);"),
    ("pop_back", "fn pop<T, N>(a: GenericArray<T, N>) -> (GenericArray<T, Sub1<N>>, T) where N: ArrayLength + Sub<B1>, Sub1<N>: ArrayLength + Add<B1, Output = N>, Add1<Sub1<N>>: ArrayLength { a.pop_back() }",
     "let (_r, _x): (GenericArray<i32, U2>, i32) = pop(arr![1, 2, 3]);", "let (_r, _x): (GenericArray<i32, U3>, i32) = pop(arr![1, 2, 3]);"),
    ("remove", "fn rm<T, N>(a: GenericArray<T, N>, i: usize) -> (T, GenericArray<T, Sub1<N>>) where N: ArrayLength + Sub<B1>, Sub1<N>: ArrayLength { a.remove(i) }",
     "let (_x, _r): (i32, GenericArray<i32, U2>) = rm(arr![1, 2, 3], 1);", "let (_x, _r): (i32, GenericArray<i32, U1>) = rm(arr![1, 2, 3], 1);"),
    ("flatten", "fn flat<T, N, M>(a: GenericArray<GenericArray<T, N>, M>) -> GenericArray<T, Prod<N, M>> where N: ArrayLength + Mul<M>, M: ArrayLength, Prod<N, M>: ArrayLength { a.flatten() }",
     "let _: GenericArray<i32, U6> = flat(arr![arr![1, 2], arr![3, 4], arr![5, 6]]);", "let _: GenericArray<i32, U5> = flat(arr![arr![1, 2], arr![3, 4], arr![5, 6]]);"),
    ("unflatten", "fn unflat<T, NM, N>(a: GenericArray<T, NM>) -> GenericArray<GenericArray<T, N>, Quot<NM, N>> where NM: ArrayLength + Div<N>, N: ArrayLength, Quot<NM, N>: ArrayLength { a.unflatten() }",
     "let _: GenericArray<GenericArray<i32, U2>, U3> = unflat(arr![1, 2, 3, 4, 5, 6]);", "let _: GenericArray<GenericArray<i32, U2>, U4> = unflat(arr![1, 2, 3, 4, 5, 6]);"),
    ("map", "fn dbl<N: ArrayLength>(a: GenericArray<i32, N>) -> GenericArray<i64, N> { a.map(|x| x as i64 * 2) }",
     "let _: GenericArray<i64, U3> = dbl(arr![1, 2, 3]);", "let _: GenericArray<i64, U4> = dbl(arr![1, 2, 3]);"),
    ("zip", "fn add<N: ArrayLength>(a: GenericArray<i32, N>, b: &GenericArray<i32, N>) -> GenericArray<i32, N> { a.zip(b, |x, y| x + *y) }",
     "let b = arr![4, 5, 6]; let _ = add(arr![1, 2, 3], &b);", "let b = arr![4, 5, 6, 7]; let _ = add(arr![1, 2, 3], &b);"),
    ("zip_refs", "fn add<N: ArrayLength>(a: &GenericArray<i32, N>, b: &GenericArray<i32, N>) -> GenericArray<i32, N> { a.zip(b, |x, y| *x + *y) }",
     "let (a, b) = (arr![1, 2, 3], arr![4, 5, 6]); let _ = add(&a, &b);", "let (a, b) = (arr![1, 2, 3], arr![4, 5]); let _ = add(&a, &b);"),
    ("fold", "fn sum<N: ArrayLength>(a: &GenericArray<i32, N>) -> i32 { a.fold(0, |acc, x| acc + *x) }",
     "let _ = sum(&arr![1, 2, 3]);", "let _ = sum(&[1, 2, 3]);"),
    ("generate", "fn iota<N: ArrayLength>() -> GenericArray<usize, N> { GenericArray::generate(|i| i) }",
     "let _: GenericArray<usize, U7> = iota();", "let _: GenericArray<u8, U7> = iota();"),
    ("default_clone_eq", "fn same<T: Default + Clone + PartialEq, N: ArrayLength>() -> bool { let a = GenericArray::<T, N>::default(); a.clone() == a }",
     "let _ = same::<String, U5>();", "let _ = same::<NoClone, U5>();"),
    ("hex", "fn hx<N>(a: &GenericArray<u8, N>) -> String where N: ArrayLength + Add<N>, Sum<N, N>: ArrayLength { format!(\"{:x}{:X}\", a, a) }",
     "let _ = hx(&arr![1u8, 2, 3]);", "let _ = hx(&arr![1u16, 2, 3]);"),
    ("from_iter", "fn coll<N: ArrayLength>(v: Vec<i32>) -> Option<GenericArray<i32, N>> { GenericArray::try_from_iter(v).ok() }",
     "let _: Option<GenericArray<i32, U3>> = coll(vec![1, 2, 3]);", "let _: Option<GenericArray<i64, U3>> = coll(vec![1, 2, 3]);"),
    ("const_generic", "fn conv<const K: usize>(a: [u32; K]) -> GenericArray<u32, generic_array::ConstArrayLength<K>> where generic_array::typenum::Const<K>: generic_array::IntoArrayLength { GenericArray::from(a) }",
     "let _: GenericArray<u32, U4> = conv([1, 2, 3, 4]);", "let _: GenericArray<u32, U5> = conv([1, 2, 3, 4]);"),
    ("copy_struct", "#[derive(Clone, Copy)] struct W<N: ArrayLength> where N::ArrayType<f32>: Copy { d: GenericArray<f32, N> }",
     "let w = W::<U3> { d: arr![1.0, 2.0, 3.0] }; let v = w; let _ = (w.d, v.d);", "let w = W::<U3> { d: arr![1.0, 2.0, 3.0, 4.0] }; let v = w; let _ = (w.d, v.d);"),
    ("into_iter_generic", "fn total<N: ArrayLength>(a: GenericArray<i32, N>) -> i32 { a.into_iter().rev().skip(1).sum() }",
     "let _ = total(arr![1, 2, 3]);", "let _ = total(arr![1u8, 2, 3]);"),
    ("boxed_generic", "fn bx<N: ArrayLength>() -> Box<GenericArray<u64, N>> { GenericArray::default_boxed() }",
     "let _: Box<GenericArray<u64, U9>> = bx();", "let _: Box<GenericArray<u32, U9>> = bx();"),
]
generic += [
    ("send_param", "fn ship<T: Send, N: ArrayLength>(a: GenericArray<T, N>) { need_send(a) } fn ship_it<T: Send, N: ArrayLength>(a: GenericArray<T, N>) { need_send(a.into_iter()) }",
     "ship(arr![1u8, 2]); ship_it(arr![String::new()]);", "ship(arr![Rc::new(1u8)]); ship_it(arr![Rc::new(1u8)]);"),
    ("sync_param", "fn share<T: Sync, N: ArrayLength>(a: &GenericArray<T, N>) { need_sync(a) } fn share_it<T: Sync, N: ArrayLength>(a: GenericArray<T, N>) { need_sync(&a.into_iter()) }",
     "share(&arr![1u8, 2]); share_it(arr![1u8]);", "share(&arr![Cell::new(1u8)]); share_it(arr![Cell::new(1u8)]);"),
    ("send_struct", "struct Buf<T, N: ArrayLength> { buf: GenericArray<T, N> } fn spawn<T: Send + 'static, N: ArrayLength + 'static>(b: Buf<T, N>) { std::thread::spawn(move || drop(b.buf)).join().unwrap(); }",
     "spawn(Buf { buf: arr![1u8, 2, 3] });", "spawn(Buf { buf: arr![Rc::new(1u8)] });"),
    ("sync_static_ref", "fn scoped<N: ArrayLength>(a: &GenericArray<u64, N>) -> u64 { std::thread::scope(|s| s.spawn(|| a.iter().sum::<u64>()).join().unwrap()) }",
     "let _ = scoped(&arr![1u64, 2, 3]);", "let _ = scoped(&arr![1u32, 2, 3]);"),
    ("copy_clone_param", "fn dup<T: Copy, N: ArrayLength>(a: GenericArray<T, N>) -> (GenericArray<T, N>, GenericArray<T, N>) where N::ArrayType<T>: Copy { (a, a) } fn cl<T: Clone, N: ArrayLength>(a: &GenericArray<T, N>) -> GenericArray<T, N> { a.clone() }",
     "let _ = dup(arr![1u8, 2]); let _ = cl(&arr![String::new()]);", "let _ = dup(arr![String::new()]); let _ = cl(&arr![NoClone]);"),
]
for name, top, acc, rej in generic:
    pair("generic-length", f"generic_{name}", acc, rej, "Lk", toplevel=GEN_TOP + top + "\n")


# ------------------------------------------------------------------ zipping through the inverted forms (the trait's own entry points)
pair("zip-len", "inverted_zip_own", "let _ = arr![1, 2, 3].inverted_zip(arr![4, 5, 6], |l, r| l + r);", "let _ = arr![1, 2, 3].inverted_zip(arr![4, 5, 6, 7], |l, r| l + r);", "Lk")
pair("zip-len", "inverted_zip2_own", "let _ = arr![1, 2, 3].inverted_zip2(arr![4, 5, 6], |l, r| l + r);",
     ["let _ = arr![1, 2, 3].inverted_zip2(arr![4, 5, 6, 7], |l, r| l + r);", "let _ = arr![1, 2, 3].inverted_zip2(arr![4, 5], |l, r| l + r);"], "Lk")
pair("zip-len", "inverted_zip2_ref", "let (a, b) = (arr![1, 2, 3], arr![4, 5, 6]); let _ = (&a).inverted_zip2(&b, |l, r| l + r);",
     "let (a, b) = (arr![1, 2, 3], arr![4, 5, 6, 7]); let _ = (&a).inverted_zip2(&b, |l, r| l + r);", "Lk")
pair("zip-len", "inverted_zip2_box", "let _ = box_arr![1, 2, 3].inverted_zip2(box_arr![4, 5, 6], |l, r| l + r);",
     "let _ = box_arr![1, 2, 3].inverted_zip2(box_arr![4, 5, 6, 7], |l, r| l + r);", "Lk")
pair("zip-len", "inverted_zip_ref_own", "let a = arr![1, 2, 3]; let _ = (&a).inverted_zip(arr![4, 5, 6], |l, r| l + r);",
     "let a = arr![1, 2, 3]; let _ = (&a).inverted_zip(arr![4, 5, 6, 7], |l, r| l + r);", "Lk")

# ------------------------------------------------------------------ accept probes for other properties
# Programs of a property's own domain that must keep compiling ("for all N, M", "both forms
# work in const contexts").  They are judged differentially by that property's check: if every
# probe of the property fails the API moved (inconclusive); if some fail while others compile,
# the operation no longer exists for those inputs (violation).
def probe(prop, family, name, body, toplevel=""):
    add(name, body, "accept", "Lk", family, toplevel=toplevel, prop=prop)


for n in range(0, 4):
    for m in range(0, 4):
        nm = n * m
        nest = f"GenericArray<GenericArray<u32, U{n}>, U{m}>"
        flat = f"GenericArray<u32, U{nm}>"
        probe("C11", "probe-flatten", f"probe_flatten_owned_{n}_{m}", f"let a: {nest} = Default::default(); let f: {flat} = a.flatten(); let _ = f.len();")
        probe("C11", "probe-flatten", f"probe_flatten_ref_{n}_{m}", f"let a: {nest} = Default::default(); let f: &{flat} = (&a).flatten(); let _ = f.len();")
        probe("C11", "probe-flatten", f"probe_flatten_mut_{n}_{m}", f"let mut a: {nest} = Default::default(); let f: &mut {flat} = (&mut a).flatten(); let _ = f.len();")
        if n >= 1:
            probe("C11", "probe-unflatten", f"probe_unflatten_owned_{n}_{m}", f"let a: {flat} = Default::default(); let r: {nest} = a.unflatten(); let _ = r.len();")
            probe("C11", "probe-unflatten", f"probe_unflatten_ref_{n}_{m}", f"let a: {flat} = Default::default(); let r: &{nest} = (&a).unflatten(); let _ = r.len();")
            probe("C11", "probe-unflatten", f"probe_unflatten_mut_{n}_{m}", f"let mut a: {flat} = Default::default(); let r: &mut {nest} = (&mut a).unflatten(); let _ = r.len();")

SLOT = """#[derive(Debug, PartialEq)] struct Slot { name: String, hits: Vec<u32> }
const FREE: Slot = Slot { name: String::new(), hits: Vec::new() };
#[derive(Clone, Copy, PartialEq, Debug)] struct P(u8, u16);
const fn mk(i: u8) -> P { P(i, i as u16 * 3) }
"""
c20 = [
    # a path to a const item of a non-Copy type is a legal repeat operand, as for the native [x; N]
    ("const_operand_ty_5", "let s = arr![FREE; U5]; assert_eq!(s.len(), 5);"),
    ("const_operand_ty_64", "let s = arr![FREE; U64]; assert_eq!(s.len(), 64);"),
    ("const_operand_ty_2", "let s = arr![FREE; U2]; assert_eq!(s.len(), 2);"),
    ("const_operand_expr_5", "let s = arr![FREE; 5]; assert_eq!(s.len(), 5);"),
    ("const_operand_in_const", "const T: GenericArray<Slot, U2> = arr![FREE; U2]; static S: GenericArray<Slot, U3> = arr![FREE; U3]; let _ = (T.len(), S.len());"),
    ("const_operand_expr_in_const", "const T: GenericArray<Slot, U4> = arr![FREE; 4]; let _ = T.len();"),
    ("noncopy_single", "let one = arr![Slot { name: String::from(\"a\"), hits: vec![1] }; U1]; let none: GenericArray<Slot, U0> = arr![Slot { name: String::new(), hits: vec![] }; U0]; let _ = (one.len(), none.len());"),
    ("noncopy_single_expr", "let one = arr![String::from(\"a\"); 1]; let none = arr![String::from(\"b\"); 0]; let _ = (one.len(), none.len());"),
    ("const_fn_operand", "const T: GenericArray<P, U7> = arr![mk(3); U7]; const L: GenericArray<P, U3> = arr![mk(1), mk(2), mk(3)]; let _ = (T, L);"),
    ("const_fn_body", "const fn build() -> GenericArray<u16, U4> { arr![7u16; U4] } const fn list() -> GenericArray<u8, U3> { arr![1, 2, 3] } const A: GenericArray<u16, U4> = build(); let _ = (A, list());"),
    ("infer_literal_ty", "let t = arr![1; U6]; let u = arr![1; 6]; let _: i32 = t[0] + u[5];"),
    ("infer_from_annotation", "let a: GenericArray<u8, U3> = arr![1, 2, 3]; let b: GenericArray<f32, U2> = arr![1.0; U2]; let c: GenericArray<u64, U2> = arr![9; 2]; let _ = (a, b, c);"),
    ("trailing_commas", "let a = arr![1, 2, 3,]; let b = arr![1,]; let c: GenericArray<u8, U0> = arr![]; let d = box_arr![1, 2,]; let _ = (a, b, c, d);"),
    ("expr_kinds", "let v = 4; let a = arr![{ let y = 3; y }, if v > 2 { 1 } else { 0 }, (|x: i32| x + 1)(2), v * 2, match v { 4 => 1, _ => 0 }]; let _: [i32; 5] = a.into_array();"),
    ("nested_macros", "let a = arr![arr![1, 2], arr![3, 4]]; let b = arr![vec![1, 2], vec![3]]; let c = arr![arr![0u8; U2]; U3]; let _ = (a, b, c);"),
    ("refs_and_strs", "let x = 5; let a = arr![&x, &x]; let s = arr![\"a\", \"b\", \"c\"]; let _ = (a, s);"),
    ("repeat_expr_kinds", "let a = arr![1 + 1; U3]; let b = arr![{ 2u8 }; 3]; let c = arr![mk(1); U2]; let d = arr![u8::MAX; { 1 + 2 }]; let _ = (a, b, c, d);"),
    ("box_forms", "let a = box_arr![1, 2, 3]; let b = box_arr![0u8; U5]; let c = box_arr![String::new(); 3]; let d: Box<GenericArray<u8, U0>> = box_arr![]; let e = box_arr![String::from(\"x\"); U2]; let _ = (a, b, c, d, e);"),
    ("box_infer", "let t = box_arr![1; U6]; let u = box_arr![1; 6]; let _: i32 = t[0] + u[5]; let w: Box<GenericArray<u64, U2>> = box_arr![1, 2]; let _ = w;"),
    ("large_type_lengths", "let a = arr![0u8; U1000]; let b = arr![0u8; Sum<U1024, U1>]; let c = box_arr![0u16; Exp<U10, U4>]; let _ = (a.len(), b.len(), c.len());"),
]
for cnt in (100, 126, 128, 255, 256):
    lst = ", ".join(str(i % 251) + "u8" for i in range(cnt))
    c20.append((f"long_list_{cnt}", f"let a = arr![{lst}]; let b = box_arr![{lst},]; assert_eq!(a.len(), {cnt}); assert_eq!(b.len(), {cnt});"))
c20.append(("type_lengths_without_const", "let a = arr![7u8; Sum<U1024, U1>]; let b = arr![7u8; Prod<U100, U11>]; const C: GenericArray<u16, Prod<U500, U3>> = arr![1u16; Prod<U500, U3>]; let d = box_arr![0u8; Prod<U100, U11>]; let _ = (a.len(), b.len(), C.len(), d.len());"))
c20.append(("type_repeat_in_const", "const A: GenericArray<u8, U0> = arr![1u8; U0]; const B: GenericArray<u32, U7> = arr![9u32; U7]; static S: GenericArray<(u8, u16), U4> = arr![(1u8, 2u16); U4]; const U: GenericArray<(), U3> = arr![(); U3]; let _ = (A, B, S.len(), U);"))
# length expressions that mention the surrounding item (a nested const item could not see these)
c20.append(("len_from_self", "struct S; impl S { const LEN: usize = 3; fn f() -> GenericArray<u8, U3> { arr![7u8; { Self::LEN }] } const TABLE: GenericArray<u16, U3> = arr![1u16; { Self::LEN }]; } let _ = (S::f(), S::TABLE);"))
c20.append(("len_from_const_generic", "fn rep<const K: usize>(x: u8) -> GenericArray<u8, generic_array::ConstArrayLength<K>> where Const<K>: generic_array::IntoArrayLength { arr![x; { K }] } const fn crep<const K: usize>() -> GenericArray<u8, generic_array::ConstArrayLength<K>> where Const<K>: generic_array::IntoArrayLength { arr![9u8; { K }] } let a: GenericArray<u8, U4> = rep::<4>(1); let b: GenericArray<u8, U2> = crep::<2>(); let _ = (a, b);"))
c20.append(("len_from_trait_const", "trait W { const WIDTH: usize; } struct P; impl W for P { const WIDTH: usize = 2; } impl P { fn g() -> GenericArray<i32, U2> { arr![5; { <Self as W>::WIDTH }] } } let _ = P::g();"))
for name, body in c20:
    probe("C20", "probe-arrmac", "probe_arr_" + name, body, toplevel=SLOT)



# ------------------------------------------------------------------ comparing with native arrays / views of other lengths
pair("eq-len", "eq_native_into", "let _ = arr![1u8, 2, 3] == [1, 2, 3].into(); assert_eq!(arr![1u8, 2, 3], [1, 2, 3].into());",
     ["let _ = arr![1u8, 2, 3] == [1u8, 2];", "let _ = [1u8, 2] == arr![1u8, 2, 3];", "let _ = arr![1u8, 2, 3] == [1u8, 2, 3, 4];"], "Lk")
# the native-array views exist for exactly one length (C02's clause, so also tagged for C02)
for tag, prop in (("", "C12"), ("c02_", "C02")):
    add(f"{tag}asref_native_len_acc", "let a = arr![1, 2, 3]; let r: &[i32; 3] = a.as_ref(); let mut b = arr![1, 2, 3]; let m: &mut [i32; 3] = b.as_mut(); m[0] = r[0];", "accept", "Lk", "array-conv", prop=prop)
    for i, body in enumerate([
        "let a = arr![1, 2]; let r: &[i32; 4] = a.as_ref(); let _ = r[3];",
        "let mut a = arr![1, 2]; let m: &mut [i32; 4] = a.as_mut(); m[3] = 0;",
        "let a = arr![1, 2, 3]; let r: &[i32; 2] = a.as_ref(); let _ = r[1];",
        "let n = [1, 2, 3]; let g: &GenericArray<i32, U4> = (&n).into(); let _ = g[3];",
        "let mut n = [1, 2, 3]; let g: &mut GenericArray<i32, U2> = (&mut n).into(); g[0] = 0;",
    ]):
        add(f"{tag}asref_native_len_rej{i + 1}", body, "reject", "Lk", "array-conv", twin=f"{tag}asref_native_len_acc", prop=prop)

# unflatten with the row length named explicitly (not inferred from the result type)
for n, m in ((2, 3), (3, 2), (1, 4), (4, 1), (2, 1), (1, 2), (3, 1)):
    nm = n * m
    probe("C11", "probe-unflatten", f"probe_unflatten_explicit_{n}_{m}",
          f"let a: GenericArray<u32, U{nm}> = Default::default(); let r: GenericArray<GenericArray<u32, U{n}>, U{m}> = Unflatten::<u32, U{nm}, U{n}>::unflatten(a); let b: GenericArray<u32, U{nm}> = Default::default(); let v: &GenericArray<GenericArray<u32, U{n}>, U{m}> = Unflatten::<u32, U{nm}, U{n}>::unflatten(&b); let mut c: GenericArray<u32, U{nm}> = Default::default(); let w: &mut GenericArray<GenericArray<u32, U{n}>, U{m}> = Unflatten::<u32, U{nm}, U{n}>::unflatten(&mut c); let f: GenericArray<u32, U{nm}> = Flatten::<u32, U{n}, U{m}>::flatten(r); let _ = (v.len(), w.len(), f.len());")


# the mutable regroupings borrow their source for as long as they live ("no overlap" in C10 terms):
for fn_name, call in (("chunks_from_slice_mut", "GenericArray::<u8, U2>::chunks_from_slice_mut(&mut v)"),):
    add("c10_alias_chunks_mut_acc", f"let mut v = [1u8, 2, 3, 4, 5]; {{ let (c, r) = {call}; c[0][0] = 9; r[0] = 8; }} {{ let (c2, _r2) = {call}; c2[1][1] = 7; }} let _ = v;", "accept", "Bw", "alias-mut", prop="C10")
    add("c10_alias_chunks_mut_rej1", f"let mut v = [1u8, 2, 3, 4, 5]; let (c, _r) = {call}; let (c2, _r2) = {call}; c[0][0] = 9; c2[0][0] = 8;", "reject", "Bw", "alias-mut", twin="c10_alias_chunks_mut_acc", prop="C10")
    add("c10_alias_chunks_mut_rej2", f"let c = {{ let mut v = [1u8, 2, 3, 4, 5]; let (c, _r) = {call}; c }}; let _ = c.len();", "reject", "Bw", "alias-mut", twin="c10_alias_chunks_mut_acc", prop="C10")
    add("c10_alias_chunks_mut_rej3", f"let mut v = [1u8, 2, 3, 4, 5]; let (c, _r) = {call}; v[0] = 1; c[0][0] = 9;", "reject", "Bw", "alias-mut", twin="c10_alias_chunks_mut_acc", prop="C10")
add("c10_alias_slice_from_chunks_mut_rej", "let mut g = [arr![1u8, 2], arr![3u8, 4]]; let f = GenericArray::slice_from_chunks_mut(&mut g); let f2 = GenericArray::slice_from_chunks_mut(&mut g); f[0] = 1; f2[0] = 2;", "reject", "Bw", "alias-mut", twin="c10_alias_chunks_mut_acc", prop="C10")
add("c10_alias_from_chunks_mut_rej", "let mut n = [[1u8, 2], [3, 4]]; let g: &mut [GenericArray<u8, U2>] = GenericArray::from_chunks_mut(&mut n); n[0][0] = 5; g[0][0] = 6;", "reject", "Bw", "alias-mut", twin="c10_alias_chunks_mut_acc", prop="C10")

# ------------------------------------------------------------------ API-surface probes for the run-time properties
# If a change makes an engine stop compiling, its property's probes say whether the API moved
# altogether (all fail: inconclusive) or an operation vanished for some lengths / element types
# the property quantifies over (some fail: violation).
API_TOP = """struct Z; // zero-sized, no traits
#[derive(Clone, Debug, Default, PartialEq, Eq, PartialOrd, Ord, Hash)] struct D(u8);
struct NC(u8); // neither Clone nor Default nor Debug
fn need_dei<I: DoubleEndedIterator + ExactSizeIterator + core::iter::FusedIterator>(_: &I) {}
"""
api = {
 "C02": [
  ("views_u0", "let mut a: GenericArray<NC, U0> = arr![]; let _: &[NC] = a.as_slice(); let _: &mut [NC] = a.as_mut_slice(); let _: &[NC] = &a[..]; let _: &[NC] = a.as_ref(); let _: &[NC; 0] = a.as_ref(); let _: &mut [NC; 0] = a.as_mut(); let _: &[NC] = core::borrow::Borrow::borrow(&a); let _: &mut [NC] = core::borrow::BorrowMut::borrow_mut(&mut a); for _ in &a {} for _ in &mut a {}"),
  ("views_u3_zst", "let mut a: GenericArray<Z, U3> = arr![Z, Z, Z]; let _: &[Z] = a.as_slice(); let _: &mut [Z] = a.as_mut_slice(); let _: &[Z; 3] = a.as_ref(); let _: &mut [Z; 3] = a.as_mut(); let _: &[Z] = a.as_ref(); let _: &mut [Z] = a.as_mut(); for _ in &a {} for _ in &mut a {}"),
  ("from_slice_forms", "let mut v = [NC(1), NC(2)]; { let _: &GenericArray<NC, U2> = GenericArray::from_slice(&v); } { let _: &mut GenericArray<NC, U2> = GenericArray::from_mut_slice(&mut v); } { let _: Result<&GenericArray<NC, U2>, _> = GenericArray::try_from_slice(&v); } { let _: Result<&mut GenericArray<NC, U2>, _> = GenericArray::try_from_mut_slice(&mut v); } { let _: Result<&GenericArray<NC, U2>, _> = <&GenericArray<NC, U2>>::try_from(&v[..]); } { let _: Result<&mut GenericArray<NC, U2>, _> = <&mut GenericArray<NC, U2>>::try_from(&mut v[..]); }"),
  ("from_slice_u0", "let mut v: [NC; 0] = []; { let _: &GenericArray<NC, U0> = GenericArray::from_slice(&v); } { let _: &mut GenericArray<NC, U0> = GenericArray::from_mut_slice(&mut v); } { let _ = GenericArray::<NC, U0>::try_from_slice(&v).is_ok(); } { let _ = <&mut GenericArray<NC, U0>>::try_from(&mut v[..]).is_ok(); }"),
  ("native_refs", "let mut n = [NC(1), NC(2), NC(3)]; { let _: &GenericArray<NC, U3> = (&n).into(); } { let _: &mut GenericArray<NC, U3> = (&mut n).into(); } let g: GenericArray<NC, U3> = n.into(); let _: [NC; 3] = g.into(); let g0: GenericArray<NC, U0> = GenericArray::from_array([]); let _: [NC; 0] = g0.into_array();"),
  ("tuples", "let g: GenericArray<NC, U1> = (NC(1),).into(); let _: (NC,) = g.into(); let g: GenericArray<NC, U3> = (NC(1), NC(2), NC(3)).into(); let _: (NC, NC, NC) = g.into(); let g: GenericArray<u8, U12> = (1, 2, 3, 4, 5, 6, 7, 8, 9, 10, 11, 12).into(); let _: (u8, u8, u8, u8, u8, u8, u8, u8, u8, u8, u8, u8) = g.into();"),
 ],
 "C06": [
  ("iter_traits", "let it = arr![NC(1), NC(2)].into_iter(); need_dei(&it); let it0 = GenericArray::<NC, U0>::from_array([]).into_iter(); need_dei(&it0); let z = arr![Z, Z].into_iter(); need_dei(&z);"),
  ("iter_clone_debug", "let it = arr![D(1), D(2)].into_iter(); let c = it.clone(); let _ = format!(\"{:?}{:#?}\", it, c); let mut t = c.clone(); t.clone_from(&it);"),
  ("iter_methods", "let mut it = arr![NC(1), NC(2), NC(3)].into_iter(); let _ = (it.len(), it.size_hint()); let _: &[NC] = it.as_slice(); let _: &mut [NC] = it.as_mut_slice(); let _ = it.next(); let _ = it.next_back(); let _ = it.nth(0); let _ = it.nth_back(0); let _ = it.count();"),
  ("iter_folds", "let it = arr![NC(1), NC(2)].into_iter(); let _ = it.fold(0u32, |a, x| a + x.0 as u32); let it = arr![NC(1), NC(2)].into_iter(); let _ = it.rfold(0u32, |a, x| a + x.0 as u32); let _ = arr![NC(1)].into_iter().last(); let _ = arr![NC(1)].into_iter().rev().count();"),
 ],
 "C08": [
  ("generate_forms", "let _: GenericArray<NC, U3> = GenericArray::generate(|i| NC(i as u8)); let _: GenericArray<NC, U0> = GenericArray::generate(|i| NC(i as u8)); let _: Box<GenericArray<NC, U3>> = Box::<GenericArray<NC, U3>>::generate(|i| NC(i as u8)); let _: GenericArray<Z, U2> = GenericArray::generate(|_| Z);"),
  ("map_forms", "let mut a = arr![NC(1), NC(2)]; let _: GenericArray<u8, U2> = (&a).map(|x| x.0); let _: GenericArray<u8, U2> = (&mut a).map(|x| x.0); let _: GenericArray<Z, U2> = a.map(|_| Z); let b = box_arr![1u8, 2]; let _: Box<GenericArray<u16, U2>> = b.map(|x| x as u16); let e: GenericArray<NC, U0> = arr![]; let _: GenericArray<Z, U0> = e.map(|_| Z);"),
  ("zip_forms", "let (mut a, mut b) = (arr![NC(1), NC(2)], arr![NC(3), NC(4)]); let _: GenericArray<u8, U2> = (&a).zip(&b, |x, y| x.0 + y.0); let _: GenericArray<u8, U2> = (&mut a).zip(&mut b, |x, y| x.0 + y.0); let _: GenericArray<u8, U2> = (&a).zip(&mut b, |x, y| x.0 + y.0); let _: GenericArray<u8, U2> = a.zip(b, |x, y| x.0 + y.0); let _ = box_arr![1, 2].zip(box_arr![3, 4], |x, y| x + y);"),
  ("zip_mixed_forms", "let (a, b) = (arr![NC(1), NC(2)], arr![NC(3), NC(4)]); let _: GenericArray<u8, U2> = a.zip(&b, |x, y| x.0 + y.0); let a = arr![NC(1), NC(2)]; let _: GenericArray<u8, U2> = (&a).zip(b, |x, y| x.0 + y.0); let (a, mut b) = (arr![NC(1), NC(2)], arr![NC(3), NC(4)]); let _: GenericArray<u8, U2> = a.zip(&mut b, |x, y| x.0 + y.0);"),
  ("fold_clone_default", "let mut a = arr![D(1), D(2)]; let _ = (&a).fold(0, |s, x| s + x.0); let _ = (&mut a).fold(0, |s, x| s + x.0); let c = a.clone(); let _ = a.fold(0, |s, x| s + x.0); let _ = Box::new(c).fold(0, |s, x| s + x.0); let _: GenericArray<D, U5> = Default::default(); let _: GenericArray<D, U0> = Default::default(); let e: GenericArray<D, U0> = arr![]; let _ = e.clone();"),
 ],
 "C09": [
  ("lengthen_shorten", "let a: GenericArray<NC, U0> = arr![]; let a: GenericArray<NC, U1> = a.append(NC(1)); let a: GenericArray<NC, U2> = a.prepend(NC(0)); let (a, _x): (GenericArray<NC, U1>, NC) = a.pop_back(); let (_y, a): (NC, GenericArray<NC, U0>) = a.pop_front(); let _ = a;"),
  ("split_all_k", "let a = arr![NC(1), NC(2), NC(3)]; let (_h, _t): (GenericArray<NC, U0>, GenericArray<NC, U3>) = a.split(); let a = arr![NC(1), NC(2), NC(3)]; let (_h, _t): (GenericArray<NC, U3>, GenericArray<NC, U0>) = a.split(); let mut a = arr![NC(1), NC(2), NC(3)]; { let (_h, _t): (&GenericArray<NC, U1>, &GenericArray<NC, U2>) = (&a).split(); } { let (_h, _t): (&mut GenericArray<NC, U3>, &mut GenericArray<NC, U0>) = (&mut a).split(); } { let (_h, _t): (&mut GenericArray<NC, U0>, &mut GenericArray<NC, U3>) = (&mut a).split(); }"),
  ("split_u0", "let mut e: GenericArray<NC, U0> = arr![]; { let (_h, _t): (&GenericArray<NC, U0>, &GenericArray<NC, U0>) = (&e).split(); } { let (_h, _t): (&mut GenericArray<NC, U0>, &mut GenericArray<NC, U0>) = (&mut e).split(); } let (_h, _t): (GenericArray<NC, U0>, GenericArray<NC, U0>) = e.split();"),
  ("concat_remove", "let a: GenericArray<NC, U5> = arr![NC(1), NC(2)].concat(arr![NC(3), NC(4), NC(5)]); let e: GenericArray<NC, U0> = arr![]; let a: GenericArray<NC, U5> = a.concat(e); let e: GenericArray<NC, U0> = arr![]; let a: GenericArray<NC, U5> = e.concat(a); let (_x, a): (NC, GenericArray<NC, U4>) = a.remove(0); let (_x, a): (NC, GenericArray<NC, U3>) = a.swap_remove(2); let (_x, _a): (NC, GenericArray<NC, U2>) = unsafe { a.remove_unchecked(1) };"),
  ("zst_ops", "let a = arr![Z, Z, Z]; let a: GenericArray<Z, U4> = a.append(Z); let (_h, t): (GenericArray<Z, U1>, GenericArray<Z, U3>) = a.split(); let (_x, t): (Z, GenericArray<Z, U2>) = t.remove(1); let _: GenericArray<Z, U4> = t.concat(arr![Z, Z]);"),
 ],
 "C10": [
  ("chunks_shared", "let v = [NC(1), NC(2), NC(3), NC(4), NC(5)]; let (c, r): (&[GenericArray<NC, U2>], &[NC]) = GenericArray::chunks_from_slice(&v); let _: &[NC] = GenericArray::slice_from_chunks(c); let _ = r; let n: &[[NC; 2]] = GenericArray::into_chunks(c); let _: &[GenericArray<NC, U2>] = GenericArray::from_chunks(n);"),
  ("chunks_mut", "let mut v = [NC(1), NC(2), NC(3), NC(4), NC(5)]; let (c, _r): (&mut [GenericArray<NC, U2>], &mut [NC]) = GenericArray::chunks_from_slice_mut(&mut v); let n: &mut [[NC; 2]] = GenericArray::into_chunks_mut(c); let g: &mut [GenericArray<NC, U2>] = GenericArray::from_chunks_mut(n); let _: &mut [NC] = GenericArray::slice_from_chunks_mut(g);"),
  ("chunks_u0_zst", "let v: [NC; 0] = []; let (_c, _r): (&[GenericArray<NC, U0>], &[NC]) = GenericArray::chunks_from_slice(&v); let z = [Z, Z, Z]; let (c, _r): (&[GenericArray<Z, U2>], &[Z]) = GenericArray::chunks_from_slice(&z); let _: &[Z] = GenericArray::slice_from_chunks(c); let n0: [[NC; 0]; 3] = [[], [], []]; let g: &[GenericArray<NC, U0>] = GenericArray::from_chunks(&n0); let _: &[[NC; 0]] = GenericArray::into_chunks(g);"),
  ("chunks_const", "const V: [u8; 5] = [1, 2, 3, 4, 5]; const P: (&[GenericArray<u8, U2>], &[u8]) = GenericArray::chunks_from_slice(&V); const S: &[u8] = GenericArray::slice_from_chunks(P.0); const N: &[[u8; 2]] = GenericArray::into_chunks(P.0); const G: &[GenericArray<u8, U2>] = GenericArray::from_chunks(N); let _ = (S, G);"),
 ],
 "C13": [
  ("cmp_all_lengths", "let (a, b) = (arr![D(1), D(2)], arr![D(1), D(3)]); let _ = (a == b, a != b, a < b, a <= b, a > b, a >= b, a.cmp(&b), a.partial_cmp(&b)); let (e, f): (GenericArray<D, U0>, GenericArray<D, U0>) = (arr![], arr![]); let _ = (e == f, e.cmp(&f), e.partial_cmp(&f));"),
  ("partial_only", "let (a, b) = (arr![1.0f64, f64::NAN], arr![1.0f64, 2.0]); let _ = (a == b, a.partial_cmp(&b), a < b);"),
  ("hash_debug_borrow", "use std::collections::{BTreeMap, HashMap}; let mut h: HashMap<GenericArray<D, U2>, u8> = HashMap::new(); h.insert(arr![D(1), D(2)], 1); let _ = h.get(&[D(1), D(2)][..]); let mut t: BTreeMap<GenericArray<D, U2>, u8> = BTreeMap::new(); t.insert(arr![D(1), D(2)], 1); let _ = t.get(&[D(1), D(2)][..]); let _ = format!(\"{:?} {:#?} {:x?} {:5?}\", arr![1u8, 2], arr![D(1)], arr![10u8], arr![1.5f32]); let e: GenericArray<D, U0> = arr![]; let _ = format!(\"{:?}\", e);"),
  ("nested_and_large", "let a = arr![arr![1u8, 2], arr![3, 4]]; let _ = (a == a.clone(), format!(\"{:?}\", a)); let big = GenericArray::<u8, U4096>::default(); let _ = (big == big, big.cmp(&big), format!(\"{:?}\", big).len());"),
 ],
 "C15": [
  ("vec_box_conversions", "let a = arr![NC(1), NC(2)]; let v: Vec<NC> = a.into(); let a: GenericArray<NC, U2> = GenericArray::try_from(v).ok().unwrap(); let b: Box<[NC]> = a.into(); let a: GenericArray<NC, U2> = GenericArray::try_from(b).ok().unwrap(); let bx = Box::new(a); let s: Box<[NC]> = bx.into_boxed_slice(); let bx: Box<GenericArray<NC, U2>> = GenericArray::try_from_boxed_slice(s).ok().unwrap(); let v: Vec<NC> = bx.into_vec(); let bx: Box<GenericArray<NC, U2>> = GenericArray::try_from_vec(v).ok().unwrap(); for _ in bx {}"),
  ("boxed_constructors", "let _: Box<GenericArray<D, U3>> = GenericArray::default_boxed(); let _: Box<GenericArray<D, U0>> = GenericArray::default_boxed(); let _: Result<Box<GenericArray<NC, U2>>, _> = GenericArray::try_boxed_from_iter(vec![NC(1), NC(2)]); let _: Box<GenericArray<NC, U2>> = vec![NC(1), NC(2)].into_iter().collect(); let _: Box<GenericArray<Z, U2>> = vec![Z, Z].into_iter().collect();"),
  ("u0_and_zst", "let e: GenericArray<NC, U0> = arr![]; let v: Vec<NC> = e.into(); let e: GenericArray<NC, U0> = GenericArray::try_from(v).ok().unwrap(); let b: Box<[NC]> = e.into(); let _: Box<GenericArray<NC, U0>> = GenericArray::try_from_boxed_slice(b).ok().unwrap(); let z = arr![Z, Z]; let v: Vec<Z> = z.into(); let _: Box<GenericArray<Z, U2>> = GenericArray::try_from_vec(v).ok().unwrap();"),
 ],
 "C07": [
  ("collect_forms", "let _: Result<GenericArray<NC, U2>, _> = GenericArray::try_from_iter(vec![NC(1), NC(2)]); let _: GenericArray<NC, U2> = vec![NC(1), NC(2)].into_iter().collect(); let _: GenericArray<NC, U0> = std::iter::empty().collect(); let _: Result<GenericArray<Z, U3>, _> = GenericArray::try_from_iter((0..3).map(|_| Z)); let _: GenericArray<u8, U3> = GenericArray::from_iter(0..3u8); let _ = GenericArray::<u8, U3>::try_from_iter(std::iter::repeat(1u8)).is_err();"),
 ],
}
for prop, items in api.items():
    for name, body in items:
        probe(prop, "probe-api", f"probe_api_{prop.lower()}_{name}", body, toplevel=API_TOP)

# ------------------------------------------------------------------ zero-sized elements: a length is still a length
# (size arguments cannot tell [(); 3] from [(); 5]: every length-checked conversion must still be a type error)
ZTOP = "#[derive(Clone, Copy, Debug, PartialEq, PartialOrd, Default)] struct Permit;\n"
for el, lit in (("()", "()"), ("Permit", "Permit")):
    t = "unit" if el == "()" else "permit"
    pair("zst-len", f"zst_{t}_into_array", f"let a: GenericArray<{el}, U3> = arr![{lit}, {lit}, {lit}]; let _: [{el}; 3] = a.into_array();",
         [f"let a: GenericArray<{el}, U3> = arr![{lit}, {lit}, {lit}]; let _: [{el}; 5] = a.into_array();",
          f"let a: GenericArray<{el}, U3> = arr![{lit}, {lit}, {lit}]; let _: [{el}; 0] = a.into_array();",
          f"let a: GenericArray<{el}, U0> = arr![]; let _: [{el}; 1] = a.into_array();"], "Lk", toplevel=ZTOP)
    pair("zst-len", f"zst_{t}_from_array", f"let _: GenericArray<{el}, U2> = GenericArray::from_array([{lit}, {lit}]);",
         [f"let _: GenericArray<{el}, U3> = GenericArray::from_array([{lit}, {lit}]);", f"let _: GenericArray<{el}, U0> = GenericArray::from_array([{lit}, {lit}]);"], "Lk", toplevel=ZTOP)
    pair("zst-len", f"zst_{t}_from_into", f"let a: GenericArray<{el}, U2> = [{lit}, {lit}].into(); let _: [{el}; 2] = a.into();",
         [f"let a: GenericArray<{el}, U2> = [{lit}, {lit}].into(); let _: [{el}; 3] = a.into();", f"let _: GenericArray<{el}, U4> = [{lit}, {lit}].into();"], "Lk", toplevel=ZTOP)
    pair("zst-len", f"zst_{t}_refs", f"let mut a: GenericArray<{el}, U2> = arr![{lit}, {lit}]; {{ let _: &[{el}; 2] = a.as_ref(); }} {{ let _: &mut [{el}; 2] = a.as_mut(); }} let n = [{lit}, {lit}]; let _: &GenericArray<{el}, U2> = (&n).into();",
         [f"let a: GenericArray<{el}, U2> = arr![{lit}, {lit}]; let _: &[{el}; 7] = a.as_ref();", f"let mut a: GenericArray<{el}, U2> = arr![{lit}, {lit}]; let _: &mut [{el}; 1] = a.as_mut();",
          f"let n = [{lit}, {lit}]; let _: &GenericArray<{el}, U3> = (&n).into();"], "Lk", toplevel=ZTOP)
    pair("zst-len", f"zst_{t}_zip_eq", f"let (a, b): (GenericArray<{el}, U2>, GenericArray<{el}, U2>) = (arr![{lit}, {lit}], arr![{lit}, {lit}]); let _ = a == b; let _ = a.zip(b, |_, _| 0u8);",
         [f"let (a, b): (GenericArray<{el}, U2>, GenericArray<{el}, U3>) = (arr![{lit}, {lit}], arr![{lit}, {lit}, {lit}]); let _ = a == b;",
          f"let (a, b): (GenericArray<{el}, U2>, GenericArray<{el}, U3>) = (arr![{lit}, {lit}], arr![{lit}, {lit}, {lit}]); let _ = a.zip(b, |_, _| 0u8);"], "Lk", toplevel=ZTOP)
    pair("zst-len", f"zst_{t}_chunks", f"let n = [[{lit}; 2]; 3]; let g: &[GenericArray<{el}, U2>] = GenericArray::from_chunks(&n); let _: &[[{el}; 2]] = GenericArray::into_chunks(g);",
         [f"let n = [[{lit}; 2]; 3]; let _: &[GenericArray<{el}, U3>] = GenericArray::from_chunks(&n);", f"let n = [[{lit}; 2]; 3]; let g: &[GenericArray<{el}, U2>] = GenericArray::from_chunks(&n); let _: &[[{el}; 4]] = GenericArray::into_chunks(g);"], "Lk", toplevel=ZTOP)
    pair("zst-len", f"zst_{t}_tuple", f"let a: GenericArray<{el}, U2> = ({lit}, {lit}).into(); let _: ({el}, {el}) = a.into();",
         [f"let _: GenericArray<{el}, U3> = ({lit}, {lit}).into();", f"let a: GenericArray<{el}, U3> = arr![{lit}, {lit}, {lit}]; let _: ({el}, {el}) = a.into();"], "Lk", toplevel=ZTOP)
    pair("zst-len", f"zst_{t}_seqops", f"let a: GenericArray<{el}, U3> = arr![{lit}, {lit}, {lit}]; let (_h, _t): (GenericArray<{el}, U1>, GenericArray<{el}, U2>) = a.split(); let f: GenericArray<{el}, U4> = arr![arr![{lit}, {lit}], arr![{lit}, {lit}]].flatten(); let _: GenericArray<GenericArray<{el}, U2>, U2> = f.unflatten();",
         [f"let a: GenericArray<{el}, U3> = arr![{lit}, {lit}, {lit}]; let (_h, _t): (GenericArray<{el}, U1>, GenericArray<{el}, U3>) = a.split();",
          f"let _: GenericArray<{el}, U5> = arr![arr![{lit}, {lit}], arr![{lit}, {lit}]].flatten();",
          f"let f: GenericArray<{el}, U4> = arr![{lit}, {lit}, {lit}, {lit}]; let _: GenericArray<GenericArray<{el}, U2>, U3> = f.unflatten();",
          f"let e: GenericArray<{el}, U0> = arr![]; let _ = e.pop_back();"], "Lk", toplevel=ZTOP)

# ------------------------------------------------------------------ a mutable view needs a mutable source
# (every API that hands out `&mut` must ask for `&mut`: given a shared reference the program is a type error, so
# no mutable view of memory the caller only shared can exist in safe code)
pair("mut-from-shared", "mfs_from_mut_slice", "let mut v = [1, 2, 3]; let _: &mut GenericArray<i32, U3> = GenericArray::from_mut_slice(&mut v);",
     ["let v = [1, 2, 3]; let _: &mut GenericArray<i32, U3> = GenericArray::from_mut_slice(&v);", "let v = [1, 2, 3]; let _: &mut GenericArray<i32, U3> = GenericArray::from_mut_slice(&v[..]);"], "Lk")
pair("mut-from-shared", "mfs_try_from_mut_slice", "let mut v = [1, 2, 3]; let _: &mut GenericArray<i32, U3> = GenericArray::try_from_mut_slice(&mut v).unwrap();",
     "let v = [1, 2, 3]; let _: &mut GenericArray<i32, U3> = GenericArray::try_from_mut_slice(&v[..]).unwrap();", "Lk")
pair("mut-from-shared", "mfs_tryfrom_trait", "let mut v = [1, 2, 3]; let _: &mut GenericArray<i32, U3> = <&mut GenericArray<i32, U3>>::try_from(&mut v[..]).unwrap();",
     "let v = [1, 2, 3]; let _: &mut GenericArray<i32, U3> = <&mut GenericArray<i32, U3>>::try_from(&v[..]).unwrap();", "Lk")
pair("mut-from-shared", "mfs_chunks_from_slice_mut", "let mut v = [1, 2, 3, 4, 5]; let (_c, _r): (&mut [GenericArray<i32, U2>], &mut [i32]) = GenericArray::chunks_from_slice_mut(&mut v);",
     ["let v = [1, 2, 3, 4, 5]; let (_c, _r): (&mut [GenericArray<i32, U2>], &mut [i32]) = GenericArray::chunks_from_slice_mut(&v);",
      "let v = [1, 2, 3, 4, 5]; let (_c, _r) = GenericArray::<i32, U2>::chunks_from_slice_mut(&v[..]);"], "Lk")
pair("mut-from-shared", "mfs_slice_from_chunks_mut", "let mut c = [arr![1, 2], arr![3, 4]]; let _: &mut [i32] = GenericArray::slice_from_chunks_mut(&mut c);",
     ["let c = [arr![1, 2], arr![3, 4]]; let _: &mut [i32] = GenericArray::slice_from_chunks_mut(&c);", "let c = [arr![1, 2], arr![3, 4]]; let _ = GenericArray::<i32, U2>::slice_from_chunks_mut(&c[..]);"], "Lk")
pair("mut-from-shared", "mfs_from_chunks_mut", "let mut n = [[1, 2], [3, 4]]; let _: &mut [GenericArray<i32, U2>] = GenericArray::from_chunks_mut(&mut n);",
     ["let n = [[1, 2], [3, 4]]; let _: &mut [GenericArray<i32, U2>] = GenericArray::from_chunks_mut(&n);", "let n = [[1, 2], [3, 4]]; let _ = GenericArray::<i32, U2>::from_chunks_mut(&n[..]);",
      "let n = [[1, 2], [3, 4]]; let x = GenericArray::<i32, U2>::from_chunks_mut(&n); let y = GenericArray::<i32, U2>::from_chunks_mut(&n); x[0][0] = 7; y[0][0] = 8;"], "Lk")
pair("mut-from-shared", "mfs_into_chunks_mut", "let mut c = [arr![1, 2], arr![3, 4]]; let _: &mut [[i32; 2]] = GenericArray::into_chunks_mut(&mut c);",
     ["let c = [arr![1, 2], arr![3, 4]]; let _: &mut [[i32; 2]] = GenericArray::into_chunks_mut(&c);", "let c = [arr![1, 2], arr![3, 4]]; let _ = GenericArray::<i32, U2>::into_chunks_mut::<2>(&c[..]);"], "Lk")
pair("mut-from-shared", "mfs_from_mut_native", "let mut n = [1, 2, 3]; let _: &mut GenericArray<i32, U3> = (&mut n).into();", "let n = [1, 2, 3]; let _: &mut GenericArray<i32, U3> = (&n).into();", "Lk")
pair("mut-from-shared", "mfs_split", "let mut a = arr![1, 2, 3]; let (_h, _t): (&mut GenericArray<i32, U1>, &mut GenericArray<i32, U2>) = (&mut a).split();",
     "let a = arr![1, 2, 3]; let (_h, _t): (&mut GenericArray<i32, U1>, &mut GenericArray<i32, U2>) = (&a).split();", "Lk")
pair("mut-from-shared", "mfs_flatten", "let mut a = arr![arr![1, 2], arr![3, 4]]; let _: &mut GenericArray<i32, U4> = (&mut a).flatten();",
     "let a = arr![arr![1, 2], arr![3, 4]]; let _: &mut GenericArray<i32, U4> = (&a).flatten();", "Lk")
pair("mut-from-shared", "mfs_unflatten", "let mut a = arr![1, 2, 3, 4]; let _: &mut GenericArray<GenericArray<i32, U2>, U2> = (&mut a).unflatten();",
     "let a = arr![1, 2, 3, 4]; let _: &mut GenericArray<GenericArray<i32, U2>, U2> = (&a).unflatten();", "Lk")
pair("mut-from-shared", "mfs_iter_mut", "let mut a = arr![1, 2, 3]; for x in &mut a { *x += 1; }", "let a = arr![1, 2, 3]; for x in &a { *x += 1; }", "Bw")
pair("mut-from-shared", "mfs_as_mut_slice", "let mut a = arr![1, 2, 3]; a.as_mut_slice()[0] = 9;", "let a = arr![1, 2, 3]; a.as_mut_slice()[0] = 9;", "Bw")
pair("mut-from-shared", "mfs_map_mut", "let mut a = arr![1, 2, 3]; let _ = (&mut a).map(|x| { *x += 1; });", "let a = arr![1, 2, 3]; let _ = (&a).map(|x| { *x += 1; });", "Bw")

# ------------------------------------------------------------------ write out
if os.path.isdir(BIN):
    shutil.rmtree(BIN)
os.makedirs(BIN)
for name, p in progs.items():
    open(os.path.join(BIN, name + ".rs"), "w").write(p["src"])
json.dump({n: {k: v for k, v in p.items() if k != "src"} for n, p in progs.items()}, open(os.path.join(OUT, "expect.json"), "w"), indent=0, sort_keys=True)
cargo = """[package]
name = "corpus"
version = "0.1.0"
edition = "2021"
publish = false
autobins = true

[dependencies]
generic-array = { path = "../harness/.repo", features = ["alloc"] }

[workspace]
"""
open(os.path.join(OUT, "Cargo.toml"), "w").write(cargo)
os.makedirs(os.path.join(OUT, ".cargo"), exist_ok=True)
open(os.path.join(OUT, ".cargo", "config.toml"), "w").write("[net]\noffline = true\n")
acc = sum(1 for p in progs.values() if p["expect"] == "accept")
print(f"corpus: {len(progs)} programs ({acc} accept, {len(progs) - acc} reject), families: {sorted({p['family'] for p in progs.values()})}")
